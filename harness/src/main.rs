//! tvh - conformance harness binding the TLA+ specification of tau-engine to the real code.
//!
//!   tvh run  <cases.ndjson> <trace.ndjson>      execute cases, record events
//!   tvh gen  <topic> <seed> <n> <cases.ndjson>  seeded random cases beyond TLC's bound
//!   tvh one  <case.json>                        run one case, print its events
mod docs;
mod enc;
mod gen;
mod paths;
mod render;
mod textual;
mod run;
mod sched;
mod topics;

use serde_json::Value as J;
use std::fs::File;
use std::io::{BufRead, BufReader, BufWriter, Write};

fn ic_build() -> bool {
    cfg!(feature = "ic")
}

fn run_one(case: &J, out: &mut run::Out) {
    if run::loops_seen() >= 6 {
        // enough non-terminating calls were recorded; do not leave more spinning workers behind
        out.ev(serde_json::json!({"ev":"case","c":case}));
        out.ev(serde_json::json!({"ev":"skip","why":enc::cps("watchdog: earlier calls did not terminate")}));
    } else {
        topics::run_case(case, out, ic_build());
    }
}

fn run_cases(cases: &str, trace: &str) -> Result<(), String> {
    let f = File::open(cases).map_err(|e| format!("{}: {}", cases, e))?;
    let mut all: Vec<J> = vec![];
    for line in BufReader::new(f).lines() {
        let line = line.map_err(|e| e.to_string())?;
        let line = line.trim();
        if line.is_empty() {
            continue;
        }
        all.push(serde_json::from_str(line).map_err(|e| format!("case {}: {}", all.len(), e))?);
    }
    let mut w = BufWriter::new(File::create(trace).map_err(|e| format!("{}: {}", trace, e))?);
    let again = all.iter().any(|c| c["plan"]["again"].as_bool().unwrap_or(false));
    let mut events = 0u64;
    if !again {
        let mut out = run::Out { w: &mut w, events: 0 };
        for case in &all {
            run_one(case, &mut out);
        }
        events = out.events;
    } else {
        // C12: every case is executed a second time, later and in the opposite order, in this same
        // process; the second execution's events are appended to the first one's as further
        // objects of the same case, so that any dependence on what ran before shows as a
        // disagreement inside one case
        let mut first: Vec<Vec<u8>> = vec![];
        for case in &all {
            let mut buf: Vec<u8> = vec![];
            let mut out = run::Out { w: &mut buf, events: 0 };
            run_one(case, &mut out);
            events += out.events;
            first.push(buf);
        }
        let mut second: Vec<Vec<u8>> = (0..all.len()).map(|_| vec![]).collect();
        for (i, case) in all.iter().enumerate().rev() {
            if !case["plan"]["again"].as_bool().unwrap_or(false) {
                continue;
            }
            let text = String::from_utf8_lossy(&first[i]);
            let nobj = text
                .lines()
                .filter(|l| l.contains("\"ev\":\"opt\"") || l.contains("\"ev\":\"alt\"") || l.contains("\"ev\":\"reload\"") || l.contains("\"ev\":\"reopt\"") || l.contains("\"ev\":\"edit\""))
                .count();
            let mut c2 = case.clone();
            c2["_again"] = serde_json::json!({"base": nobj});
            let mut buf: Vec<u8> = vec![];
            let mut out = run::Out { w: &mut buf, events: 0 };
            run_one(&c2, &mut out);
            events += out.events;
            second[i] = buf;
        }
        for i in 0..all.len() {
            w.write_all(&first[i]).map_err(|e| e.to_string())?;
            w.write_all(&second[i]).map_err(|e| e.to_string())?;
        }
    }
    w.flush().map_err(|e| e.to_string())?;
    eprintln!("tvh: ran {} cases, {} events", all.len(), events);
    Ok(())
}

/// A subscriber that listens at DEBUG and discards everything: whether somebody listens to the
/// engine's log output is ambient state a verdict must not depend on (C12).  Installed for the whole
/// process when VERIF_TRACE=1 (the second process of the C12 check).
struct DebugSink;
impl tracing::Subscriber for DebugSink {
    fn enabled(&self, m: &tracing::Metadata<'_>) -> bool {
        *m.level() <= tracing::Level::DEBUG
    }
    fn new_span(&self, _: &tracing::span::Attributes<'_>) -> tracing::span::Id {
        tracing::span::Id::from_u64(1)
    }
    fn record(&self, _: &tracing::span::Id, _: &tracing::span::Record<'_>) {}
    fn record_follows_from(&self, _: &tracing::span::Id, _: &tracing::span::Id) {}
    fn event(&self, _: &tracing::Event<'_>) {}
    fn enter(&self, _: &tracing::span::Id) {}
    fn exit(&self, _: &tracing::span::Id) {}
    fn max_level_hint(&self) -> Option<tracing::level_filters::LevelFilter> {
        Some(tracing::level_filters::LevelFilter::DEBUG)
    }
}

fn main() {
    run::quiet_panics();
    if std::env::var("VERIF_TRACE").map(|v| v == "1").unwrap_or(false) {
        let _ = tracing::subscriber::set_global_default(DebugSink);
    }
    let args: Vec<String> = std::env::args().collect();
    let r = match args.get(1).map(|s| s.as_str()) {
        Some("run") if args.len() == 4 => run_cases(&args[2], &args[3]),
        Some("gen") if args.len() == 6 => {
            let seed: u64 = args[3].parse().unwrap_or(0);
            let n: usize = args[4].parse().unwrap_or(100);
            gen::gen_cases(&args[2], seed, n, &args[5])
        }
        Some("one") if args.len() == 3 => {
            let text = std::fs::read_to_string(&args[2]).map_err(|e| e.to_string());
            text.and_then(|t| {
                let v: J = serde_json::from_str(&t).map_err(|e| e.to_string())?;
                let case = if v.get("case").is_some() { v["case"].clone() } else { v };
                let stdout = std::io::stdout();
                let mut lock = stdout.lock();
                let mut out = run::Out { w: &mut lock, events: 0 };
                topics::run_case(&case, &mut out, ic_build());
                topics::explain(&case, ic_build());
                Ok(())
            })
        }
        _ => Err("usage: tvh run <cases> <trace> | gen <topic> <seed> <n> <cases> | one <case.json>".into()),
    };
    if let Err(e) = r {
        eprintln!("tvh: {}", e);
        std::process::exit(2);
    }
}
