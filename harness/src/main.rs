//! tvh - conformance harness binding the TLA+ specification of tau-engine to the real code.
//!
//!   tvh run  <cases.ndjson> <trace.ndjson>      execute cases, record events
//!   tvh gen  <topic> <seed> <n> <cases.ndjson>  seeded random cases beyond TLC's bound
//!   tvh one  <case.json>                        run one case, print its events
mod docs;
mod enc;
mod gen;
mod paths;
mod render;
mod textual;
mod run;
mod topics;

use serde_json::Value as J;
use std::fs::File;
use std::io::{BufRead, BufReader, BufWriter, Write};

fn ic_build() -> bool {
    cfg!(feature = "ic")
}

fn run_cases(cases: &str, trace: &str) -> Result<(), String> {
    let f = File::open(cases).map_err(|e| format!("{}: {}", cases, e))?;
    let mut w = BufWriter::new(File::create(trace).map_err(|e| format!("{}: {}", trace, e))?);
    let mut out = run::Out { w: &mut w, events: 0 };
    let mut n = 0u64;
    for line in BufReader::new(f).lines() {
        let line = line.map_err(|e| e.to_string())?;
        let line = line.trim();
        if line.is_empty() {
            continue;
        }
        let case: J = serde_json::from_str(line).map_err(|e| format!("case {}: {}", n, e))?;
        topics::run_case(&case, &mut out, ic_build());
        n += 1;
    }
    let ev = out.events;
    w.flush().map_err(|e| e.to_string())?;
    eprintln!("tvh: ran {} cases, {} events", n, ev);
    Ok(())
}

fn main() {
    run::quiet_panics();
    let args: Vec<String> = std::env::args().collect();
    let r = match args.get(1).map(|s| s.as_str()) {
        Some("run") if args.len() == 4 => run_cases(&args[2], &args[3]),
        Some("gen") if args.len() == 6 => {
            let seed: u64 = args[3].parse().unwrap_or(0);
            let n: usize = args[4].parse().unwrap_or(100);
            gen::gen_cases(&args[2], seed, n, &args[5])
        }
        Some("one") if args.len() == 3 => {
            let text = std::fs::read_to_string(&args[2]).map_err(|e| e.to_string());
            text.and_then(|t| {
                let v: J = serde_json::from_str(&t).map_err(|e| e.to_string())?;
                let case = if v.get("case").is_some() { v["case"].clone() } else { v };
                let stdout = std::io::stdout();
                let mut lock = stdout.lock();
                let mut out = run::Out { w: &mut lock, events: 0 };
                topics::run_case(&case, &mut out, ic_build());
                topics::explain(&case, ic_build());
                Ok(())
            })
        }
        _ => Err("usage: tvh run <cases> <trace> | gen <topic> <seed> <n> <cases> | one <case.json>".into()),
    };
    if let Err(e) = r {
        eprintln!("tvh: {}", e);
        std::process::exit(2);
    }
}
