//! Document values (the JSON form of the TLA+ tagged trees) in every representation the checks
//! need: serde_yaml, serde_json, HashMap over std types, a hand-written Object, a hand-written
//! Document, and a recording wrapper that logs every find/get call.
use crate::enc::*;
use serde_json::Value as J;
use serde_yaml::{Mapping, Number, Value as Y};
use std::borrow::Cow;
use std::cell::RefCell;
use std::collections::HashMap;
use tau_engine::{Array, AsValue, Document, Object, Value};

fn tag(v: &J) -> &str {
    v["t"].as_str().unwrap_or("")
}

pub fn doc_yaml(v: &J) -> Result<Y, String> {
    Ok(match tag(v) {
        "S" => Y::String(str_of(&v["s"])?),
        "I" => {
            let t = num_text(&serde_json::json!({"k":"i","neg":v["neg"],"d":v["d"]}))?;
            if let Ok(i) = t.parse::<i64>() {
                Y::Number(Number::from(i))
            } else if let Ok(u) = t.parse::<u64>() {
                Y::Number(Number::from(u))
            } else {
                return Err("integer out of range".into());
            }
        }
        "F" => Y::Number(Number::from(f64_of(
            &serde_json::json!({"k":"f","neg":v["neg"],"d":v["d"],"fr":v["fr"],"sp":v["sp"]}),
        )?)),
        "B" => Y::Bool(v["b"].as_bool().ok_or("bool")?),
        "N" => Y::Null,
        "A" => {
            let mut out = vec![];
            for x in v["vs"].as_array().ok_or("array")? {
                out.push(doc_yaml(x)?);
            }
            Y::Sequence(out)
        }
        "O" => {
            let mut m = Mapping::new();
            for kv in v["kv"].as_array().ok_or("object")? {
                m.insert(Y::String(str_of(&kv[0])?), doc_yaml(&kv[1])?);
            }
            Y::Mapping(m)
        }
        "nest" => {
            let k = str_of(&v["k"])?;
            let mut y = doc_yaml(&v["v"])?;
            for _ in 0..v["n"].as_u64().unwrap_or(0) {
                let mut m = Mapping::new();
                m.insert(Y::String(k.clone()), y);
                y = Y::Mapping(m);
            }
            y
        }
        x => return Err(format!("unknown document tag {:?}", x)),
    })
}

pub fn doc_json(v: &J) -> Result<J, String> {
    Ok(match tag(v) {
        "S" => J::String(str_of(&v["s"])?),
        "I" => {
            let t = num_text(&serde_json::json!({"k":"i","neg":v["neg"],"d":v["d"]}))?;
            if let Ok(i) = t.parse::<i64>() {
                J::from(i)
            } else if let Ok(u) = t.parse::<u64>() {
                J::from(u)
            } else {
                return Err("integer out of range".into());
            }
        }
        "F" => {
            let f = f64_of(
                &serde_json::json!({"k":"f","neg":v["neg"],"d":v["d"],"fr":v["fr"],"sp":v["sp"]}),
            )?;
            match serde_json::Number::from_f64(f) {
                Some(n) => J::Number(n),
                None => return Err("non-finite float in JSON".into()),
            }
        }
        "B" => J::Bool(v["b"].as_bool().ok_or("bool")?),
        "N" => J::Null,
        "A" => {
            let mut out = vec![];
            for x in v["vs"].as_array().ok_or("array")? {
                out.push(doc_json(x)?);
            }
            J::Array(out)
        }
        "O" => {
            let mut m = serde_json::Map::new();
            for kv in v["kv"].as_array().ok_or("object")? {
                m.insert(str_of(&kv[0])?, doc_json(&kv[1])?);
            }
            J::Object(m)
        }
        x => return Err(format!("unknown document tag {:?}", x)),
    })
}

/// A value tree over Rust std types.  `as_value` delegates to the engine's own AsValue impls for
/// the std type held, so HashMap<String, Std> exercises exactly those impls.
#[derive(Clone, Debug)]
pub enum Std {
    Unit,
    OptNone,
    OptSome(Box<Std>),
    Bool(bool),
    I8(i8),
    I16(i16),
    I32(i32),
    I64(i64),
    Isize(isize),
    U8(u8),
    U16(u16),
    U32(u32),
    U64(u64),
    Usize(usize),
    F32(f32),
    F64(f64),
    Str(String),
    Vec(Vec<Std>),
    Set1(std::collections::HashSet<String>),
    Map(HashMap<String, Std>),
}

impl AsValue for Std {
    fn as_value(&self) -> Value<'_> {
        match self {
            Std::Unit => ().as_value(),
            Std::OptNone => Value::Null,
            Std::OptSome(b) => b.as_value(),
            Std::Bool(x) => x.as_value(),
            Std::I8(x) => x.as_value(),
            Std::I16(x) => x.as_value(),
            Std::I32(x) => x.as_value(),
            Std::I64(x) => x.as_value(),
            Std::Isize(x) => x.as_value(),
            Std::U8(x) => x.as_value(),
            Std::U16(x) => x.as_value(),
            Std::U32(x) => x.as_value(),
            Std::U64(x) => x.as_value(),
            Std::Usize(x) => x.as_value(),
            Std::F32(x) => x.as_value(),
            Std::F64(x) => x.as_value(),
            Std::Str(x) => x.as_value(),
            Std::Vec(x) => x.as_value(),
            Std::Set1(x) => x.as_value(),
            Std::Map(x) => x.as_value(),
        }
    }
}

/// Build the std-typed tree; `variant` selects among the std types that can hold the value
/// exactly (so i8 is used only when the value fits, f32 only when the value is exact in f32).
pub fn doc_std(v: &J, variant: u64) -> Result<Std, String> {
    Ok(match tag(v) {
        "S" => Std::Str(str_of(&v["s"])?),
        "I" => {
            let t = num_text(&serde_json::json!({"k":"i","neg":v["neg"],"d":v["d"]}))?;
            let mut opts: Vec<Std> = vec![];
            if let Ok(i) = t.parse::<i64>() {
                opts.push(Std::I64(i));
                opts.push(Std::Isize(i as isize));
                if let Ok(x) = i8::try_from(i) {
                    opts.push(Std::I8(x));
                }
                if let Ok(x) = i16::try_from(i) {
                    opts.push(Std::I16(x));
                }
                if let Ok(x) = i32::try_from(i) {
                    opts.push(Std::I32(x));
                }
            }
            if let Ok(u) = t.parse::<u64>() {
                opts.push(Std::U64(u));
                opts.push(Std::Usize(u as usize));
                if let Ok(x) = u8::try_from(u) {
                    opts.push(Std::U8(x));
                }
                if let Ok(x) = u16::try_from(u) {
                    opts.push(Std::U16(x));
                }
                if let Ok(x) = u32::try_from(u) {
                    opts.push(Std::U32(x));
                }
            }
            if opts.is_empty() {
                return Err("integer out of range".into());
            }
            opts[(variant % opts.len() as u64) as usize].clone()
        }
        "F" => {
            let f = f64_of(
                &serde_json::json!({"k":"f","neg":v["neg"],"d":v["d"],"fr":v["fr"],"sp":v["sp"]}),
            )?;
            let g = f as f32;
            if variant % 2 == 1 && (g as f64 == f || f.is_nan()) {
                Std::F32(g)
            } else {
                Std::F64(f)
            }
        }
        "B" => Std::Bool(v["b"].as_bool().ok_or("bool")?),
        "N" => {
            if variant % 2 == 0 {
                Std::Unit
            } else {
                Std::OptNone
            }
        }
        "A" => {
            let vs = v["vs"].as_array().ok_or("array")?;
            if vs.len() == 1 && tag(&vs[0]) == "S" && variant % 3 == 2 {
                let mut s = std::collections::HashSet::new();
                s.insert(str_of(&vs[0]["s"])?);
                Std::Set1(s)
            } else {
                let mut out = vec![];
                for x in vs {
                    out.push(doc_std(x, variant / 3)?);
                }
                Std::Vec(out)
            }
        }
        "O" => {
            let mut m = HashMap::new();
            for kv in v["kv"].as_array().ok_or("object")? {
                m.insert(str_of(&kv[0])?, doc_std(&kv[1], variant / 2)?);
            }
            Std::Map(m)
        }
        x => return Err(format!("unknown document tag {:?}", x)),
    })
    .map(|s| {
        if variant % 5 == 4 {
            Std::OptSome(Box::new(s))
        } else {
            s
        }
    })
}

pub fn std_root(v: &J, variant: u64) -> Result<HashMap<String, Std>, String> {
    let mut m = HashMap::new();
    for kv in v["kv"].as_array().ok_or("root must be an object")? {
        m.insert(str_of(&kv[0])?, doc_std(&kv[1], variant)?);
    }
    Ok(m)
}

// -------------------------------------------------------------------------------------------
// Hand-written Object / Array / Document over an owned tree.

#[derive(Clone, Debug)]
pub enum Own {
    Null,
    Bool(bool),
    Int(i64),
    UInt(u64),
    Float(f64),
    Str(String),
    Arr(OwnArr),
    Obj(OwnObj),
}
#[derive(Clone, Debug)]
pub struct OwnArr(pub Vec<Own>);
#[derive(Clone, Debug)]
pub struct OwnObj(pub Vec<(String, Own)>);

impl Own {
    fn val(&self) -> Value<'_> {
        match self {
            Own::Null => Value::Null,
            Own::Bool(b) => Value::Bool(*b),
            Own::Int(i) => Value::Int(*i),
            Own::UInt(u) => Value::UInt(*u),
            Own::Float(f) => Value::Float(*f),
            Own::Str(s) => Value::String(Cow::Borrowed(s)),
            Own::Arr(a) => Value::Array(a),
            Own::Obj(o) => Value::Object(o),
        }
    }
}
impl Array for OwnArr {
    fn iter(&self) -> Box<dyn Iterator<Item = Value<'_>> + '_> {
        Box::new(self.0.iter().map(|v| v.val()))
    }
    fn len(&self) -> usize {
        self.0.len()
    }
}
/// Lock-step rendezvous for threads that match the same rule on the same hand-written document:
/// every `get` of a thread that has joined waits (briefly) for the others, so that all threads are
/// at the same depth of the evaluation at the same time - the schedule with maximal overlap,
/// which a free-running handful of threads practically never produces.
pub struct Lockstep {
    n: usize,
    count: std::sync::atomic::AtomicUsize,
    gen: std::sync::atomic::AtomicUsize,
}
impl Lockstep {
    pub fn new(n: usize) -> Self {
        Lockstep { n, count: Default::default(), gen: Default::default() }
    }
    fn wait(&self) {
        use std::sync::atomic::Ordering::SeqCst;
        let g = self.gen.load(SeqCst);
        if self.count.fetch_add(1, SeqCst) + 1 >= self.n {
            self.count.store(0, SeqCst);
            self.gen.fetch_add(1, SeqCst);
            return;
        }
        let t0 = std::time::Instant::now();
        while self.gen.load(SeqCst) == g && t0.elapsed() < std::time::Duration::from_millis(3) {
            std::thread::yield_now();
        }
    }
}
thread_local! {
    pub static LOCKSTEP: std::cell::RefCell<Option<std::sync::Arc<Lockstep>>> = std::cell::RefCell::new(None);
}

impl Object for OwnObj {
    fn get(&self, key: &str) -> Option<Value<'_>> {
        LOCKSTEP.with(|l| {
            if let Some(ls) = &*l.borrow() {
                ls.wait();
            }
        });
        self.0.iter().find(|(k, _)| k == key).map(|(_, v)| v.val())
    }
    fn keys(&self) -> Vec<Cow<'_, str>> {
        self.0.iter().map(|(k, _)| Cow::Borrowed(k.as_str())).collect()
    }
    fn len(&self) -> usize {
        self.0.len()
    }
}

/// `signed_pos`: represent non-negative integers as Int (true) or UInt (false) where both fit.
pub fn doc_own(v: &J, signed_pos: bool) -> Result<Own, String> {
    Ok(match tag(v) {
        "S" => Own::Str(str_of(&v["s"])?),
        "I" => {
            let t = num_text(&serde_json::json!({"k":"i","neg":v["neg"],"d":v["d"]}))?;
            let as_i = t.parse::<i64>();
            let as_u = t.parse::<u64>();
            let want_u = match v.get("u").and_then(|x| x.as_bool()) {
                Some(b) => b,
                None => !signed_pos,
            };
            match (as_i, as_u) {
                (Ok(i), Ok(u)) => {
                    if want_u {
                        Own::UInt(u)
                    } else {
                        Own::Int(i)
                    }
                }
                (Ok(i), Err(_)) => Own::Int(i),
                (Err(_), Ok(u)) => Own::UInt(u),
                _ => return Err("integer out of range".into()),
            }
        }
        "F" => Own::Float(f64_of(
            &serde_json::json!({"k":"f","neg":v["neg"],"d":v["d"],"fr":v["fr"],"sp":v["sp"]}),
        )?),
        "B" => Own::Bool(v["b"].as_bool().ok_or("bool")?),
        "N" => Own::Null,
        "A" => {
            let mut out = vec![];
            for x in v["vs"].as_array().ok_or("array")? {
                out.push(doc_own(x, signed_pos)?);
            }
            Own::Arr(OwnArr(out))
        }
        "O" => {
            let mut out = vec![];
            for kv in v["kv"].as_array().ok_or("object")? {
                out.push((str_of(&kv[0])?, doc_own(&kv[1], signed_pos)?));
            }
            Own::Obj(OwnObj(out))
        }
        x => return Err(format!("unknown document tag {:?}", x)),
    })
}

pub fn own_root(v: &J, signed_pos: bool) -> Result<OwnObj, String> {
    match doc_own(v, signed_pos)? {
        Own::Obj(o) => Ok(o),
        _ => Err("root must be an object".into()),
    }
}

// -------------------------------------------------------------------------------------------
// A hand-written Object that resolves paths ITSELF: `find` is overridden with its own walk and
// `get` answers nothing, so the content is reachable only through `find` - at the root and, since
// nested objects are of the same type, behind every `&dyn Object` the engine is handed.

pub enum FOwn {
    Leaf(Own),
    Arr(FArr),
    Obj(FObj),
}
pub struct FArr(pub Vec<FOwn>);
pub struct FObj(pub Vec<(String, FOwn)>);
impl FOwn {
    fn val(&self) -> Value<'_> {
        match self {
            FOwn::Leaf(o) => o.val(),
            FOwn::Arr(a) => Value::Array(a),
            FOwn::Obj(o) => Value::Object(o),
        }
    }
}
impl Array for FArr {
    fn iter(&self) -> Box<dyn Iterator<Item = Value<'_>> + '_> {
        Box::new(self.0.iter().map(|v| v.val()))
    }
    fn len(&self) -> usize {
        self.0.len()
    }
}
impl Object for FObj {
    fn get(&self, _key: &str) -> Option<Value<'_>> {
        None
    }
    fn keys(&self) -> Vec<Cow<'_, str>> {
        vec![]
    }
    fn len(&self) -> usize {
        self.0.len()
    }
    fn find(&self, key: &str) -> Option<Value<'_>> {
        let mut cur: &FObj = self;
        let segs: Vec<&str> = key.split('.').collect();
        for (n, seg) in segs.iter().enumerate() {
            let (name, idx) = match seg.strip_suffix(']').and_then(|s| s.split_once('[')) {
                Some((name, i)) => (name, Some(i.parse::<usize>().ok()?)),
                None => (*seg, None),
            };
            let m = &cur.0.iter().find(|(k, _)| k == name)?.1;
            let m = match idx {
                Some(i) => match m {
                    FOwn::Arr(a) => a.0.get(i)?,
                    _ => return None,
                },
                None => m,
            };
            if n + 1 == segs.len() {
                return Some(m.val());
            }
            match m {
                FOwn::Obj(o) => cur = o,
                _ => return None,
            }
        }
        None
    }
}
fn to_find(o: Own) -> FOwn {
    match o {
        Own::Arr(a) => FOwn::Arr(FArr(a.0.into_iter().map(to_find).collect())),
        Own::Obj(ob) => FOwn::Obj(FObj(ob.0.into_iter().map(|(k, v)| (k, to_find(v))).collect())),
        leaf => FOwn::Leaf(leaf),
    }
}
pub fn find_root(v: &J) -> Result<FObj, String> {
    match to_find(doc_own(v, false)?) {
        FOwn::Obj(o) => Ok(o),
        _ => Err("root must be an object".into()),
    }
}

/// A hand-written Document that is a FLAT table: every leaf of the nested document under its full
/// dotted path, nothing else.  `find` answers a key only if it is exactly such a path - the
/// intermediate objects are not exposed (the style of flattened event records).
pub struct FlatDoc(pub Vec<(String, Own)>);
impl Document for FlatDoc {
    fn find(&self, key: &str) -> Option<Value<'_>> {
        self.0.iter().find(|(k, _)| k == key).map(|(_, v)| v.val())
    }
}
fn flatten_into(prefix: &str, o: Own, out: &mut Vec<(String, Own)>) {
    match o {
        Own::Obj(ob) if !ob.0.is_empty() => {
            for (k, v) in ob.0 {
                let p = if prefix.is_empty() { k } else { format!("{}.{}", prefix, k) };
                flatten_into(&p, v, out);
            }
        }
        leaf => out.push((prefix.to_string(), leaf)),
    }
}
pub fn flat_root(v: &J) -> Result<FlatDoc, String> {
    let mut out = vec![];
    match doc_own(v, false)? {
        Own::Obj(ob) => {
            for (k, v) in ob.0 {
                flatten_into(&k, v, &mut out);
            }
        }
        _ => return Err("root must be an object".into()),
    }
    Ok(FlatDoc(out))
}

/// A hand-written Document (not an Object): resolves whole keys itself by delegating to the
/// trait's default path walk on the owned root.
pub struct OwnDoc(pub OwnObj);
impl Document for OwnDoc {
    fn find(&self, key: &str) -> Option<Value<'_>> {
        Object::find(&self.0, key)
    }
}

// -------------------------------------------------------------------------------------------
// Recording wrapper: logs (object path, method, key) for every call the engine makes.

pub struct RecLog(pub RefCell<Vec<(Vec<String>, &'static str, String)>>);

pub struct RecObj<'a> {
    pub path: Vec<String>,
    pub log: &'a RecLog,
    pub members: Vec<(String, RecVal<'a>)>,
}
pub enum RecVal<'a> {
    Leaf(Own),
    Arr(RecArr<'a>),
    Obj(RecObj<'a>),
}
pub struct RecArr<'a>(pub Vec<RecVal<'a>>);

impl<'a> RecVal<'a> {
    fn val(&self) -> Value<'_> {
        match self {
            RecVal::Leaf(o) => o.val(),
            RecVal::Arr(a) => Value::Array(a),
            RecVal::Obj(o) => Value::Object(o),
        }
    }
}
impl<'a> Array for RecArr<'a> {
    fn iter(&self) -> Box<dyn Iterator<Item = Value<'_>> + '_> {
        Box::new(self.0.iter().map(|v| v.val()))
    }
    fn len(&self) -> usize {
        self.0.len()
    }
}
impl<'a> Object for RecObj<'a> {
    fn find(&self, key: &str) -> Option<Value<'_>> {
        self.log.0.borrow_mut().push((self.path.clone(), "find", key.to_string()));
        // the default path walk, re-implemented through get() so that get calls are logged too
        default_find(self, key)
    }
    fn get(&self, key: &str) -> Option<Value<'_>> {
        self.log.0.borrow_mut().push((self.path.clone(), "get", key.to_string()));
        self.members.iter().find(|(k, _)| k == key).map(|(_, v)| v.val())
    }
    fn keys(&self) -> Vec<Cow<'_, str>> {
        self.members.iter().map(|(k, _)| Cow::Borrowed(k.as_str())).collect()
    }
    fn len(&self) -> usize {
        self.members.len()
    }
}

/// A reference implementation of path resolution used ONLY by the recording document (so that
/// the recorded get() calls are those of a correct walk; the engine's own default find is what
/// C10 tests on the other representations).
fn default_find<'o>(root: &'o dyn Object, key: &str) -> Option<Value<'o>> {
    let mut cur: Option<Value<'o>> = None;
    let mut first = true;
    for seg in key.split('.') {
        let (name, idx) = if seg.ends_with(']') && seg.contains('[') {
            let p = seg.find('[').unwrap();
            let i = seg[p + 1..seg.len() - 1].parse::<usize>().ok()?;
            (&seg[..p], Some(i))
        } else {
            (seg, None)
        };
        let got = if first {
            root.get(name)
        } else {
            match cur {
                Some(Value::Object(o)) => o.get(name),
                _ => return None,
            }
        };
        first = false;
        let got = got?;
        cur = Some(match idx {
            None => got,
            Some(i) => match got {
                Value::Array(a) => a.iter().nth(i)?,
                _ => return None,
            },
        });
    }
    cur
}

pub fn rec_build<'a>(v: &J, path: Vec<String>, log: &'a RecLog) -> Result<RecVal<'a>, String> {
    Ok(match tag(v) {
        "A" => {
            let mut out = vec![];
            for (i, x) in v["vs"].as_array().ok_or("array")?.as_slice().iter().enumerate() {
                let mut p = path.clone();
                p.push(format!("[{}]", i));
                out.push(rec_build(x, p, log)?);
            }
            RecVal::Arr(RecArr(out))
        }
        "O" => {
            let mut members = vec![];
            for kv in v["kv"].as_array().ok_or("object")? {
                let k = str_of(&kv[0])?;
                let mut p = path.clone();
                p.push(k.clone());
                members.push((k, rec_build(&kv[1], p, log)?));
            }
            RecVal::Obj(RecObj { path, log, members })
        }
        _ => RecVal::Leaf(doc_own(v, false)?),
    })
}
