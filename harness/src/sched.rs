//! Runner `sched`: executes a SCHEDULE of API calls produced by TLC from the life-cycle machine
//! (spec/MC_Life.tla) call by call against real Rule objects, recording one event per call in the
//! order of the calls.  Steps:
//!   {"op":"opt","sw":[..]}                 clone the loaded rule (+ optimise): a new object
//!   {"op":"match","obj":k,"d":i[,"repr":r]} matches() through object k
//!   {"op":"validate","obj":k}              validate() on object k
//!   {"op":"ser","obj":k,"via":"str"|"value"} serialise object k and load the text: a new object
//!   {"op":"reopt","obj":k,"sw2":[..]}       optimise() again on (a clone of) object k: a new object
//!   {"op":"tmatch","obj":k,"d":i}           matches() from a fresh thread
//!   {"op":"edit","obj":k}                   clone object k and exchange the clone's example lists
use crate::docs::*;
use crate::enc::*;
use crate::render::*;
use crate::run::*;
use serde_json::{json, Value as J};
use serde_yaml::Value as Y;
use tau_engine::Rule;

pub fn run_sched(case: &J, out: &mut Out, ic_build: bool) {
    let src = case["src"].clone();
    let docs_j: Vec<J> = case["docs"].as_array().cloned().unwrap_or_default();
    out.ev(json!({"ev":"case","c":case}));
    let mut tps: Vec<Y> = vec![];
    let mut tns: Vec<Y> = vec![];
    let mut n_ex = 0usize;
    for (key, dst) in [("tps", &mut tps), ("tns", &mut tns)] {
        for ex in case[key].as_array().cloned().unwrap_or_default() {
            match example_yaml(&ex, &docs_j, n_ex) {
                Ok(y) => dst.push(y),
                Err(e) => {
                    out.ev(json!({"ev":"skip","why":cps(&e)}));
                    return;
                }
            }
            n_ex += 1;
        }
    }
    let rendered = match rule_yaml(&src, &tps, &tns, ic_build) {
        Ok(r) => r,
        Err(e) => {
            out.ev(json!({"ev":"skip","why":cps(&e)}));
            return;
        }
    };
    let loaded = load_text(&rendered.text);
    out.ev(json!({"ev":"load","via":"str","out":loaded.tag()}));
    let rule = match loaded {
        Loaded::Ok(r) => r,
        _ => return,
    };
    let docs: Vec<Result<Y, String>> = docs_j.iter().map(doc_yaml).collect();
    let fp0 = serde_yaml::from_str::<Y>(&rendered.text)
        .map_err(|e| e.to_string())
        .and_then(|v| value_fingerprint(&v))
        .unwrap_or_else(|e| format!("err0:{}", e));
    let mut objs: Vec<Option<Rule>> = vec![];
    for st in case["sched"].as_array().cloned().unwrap_or_default() {
        let k = st["obj"].as_u64().unwrap_or(0) as usize;
        let op = st["op"].as_str().unwrap_or("");
        // an object that does not exist (an earlier call panicked): nothing to call
        if op != "opt" && !matches!(objs.get(k), Some(Some(_))) {
            out.ev(json!({"ev":"skip","why":cps("object of the schedule does not exist")}));
            continue;
        }
        match op {
            "opt" => {
                let me = objs.len();
                match optimise(&rule, &st["sw"]) {
                    Ok(r) => {
                        out.ev(json!({"ev":"opt","obj":me,"sw":st["sw"],"out":"ok"}));
                        objs.push(Some(r));
                    }
                    Err(()) => {
                        out.ev(json!({"ev":"opt","obj":me,"sw":st["sw"],"out":"panic"}));
                        objs.push(None);
                    }
                }
            }
            "match" | "tmatch" => {
                let i = st["d"].as_u64().unwrap_or(0) as usize;
                let obj = objs[k].as_ref().unwrap();
                let repr = st["repr"].as_str().unwrap_or("yaml");
                if op == "tmatch" {
                    if let Some(Ok(Y::Mapping(m))) = docs.get(i) {
                        let r = std::thread::scope(|s| s.spawn(|| matches(obj, m)).join().unwrap_or("p"));
                        out.ev(json!({"ev":"match","obj":k,"d":i,"repr":"yaml","thr":1,"out":r}));
                    }
                } else if repr == "yaml" {
                    if let Some(Ok(Y::Mapping(m))) = docs.get(i) {
                        out.ev(json!({"ev":"match","obj":k,"d":i,"repr":"yaml","out":matches(obj, m)}));
                    }
                } else if let Some(dj) = docs_j.get(i) {
                    if let Ok(m) = match_repr(obj, dj, repr, i as u64) {
                        out.ev(json!({"ev":"match","obj":k,"d":i,"repr":repr,"out":m}));
                    }
                }
            }
            "validate" => {
                let (o, kind, msg) = validate(objs[k].as_ref().unwrap());
                let named: Vec<usize> = (0..n_ex).filter(|i| msg.contains(&format!("MARK{}Q", i))).collect();
                out.ev(json!({"ev":"validate","obj":k,"out":o,"kind":kind,"named":named}));
            }
            "ser" => {
                let obj = objs[k].as_ref().unwrap();
                let via = st["via"].as_str().unwrap_or("str");
                let me = objs.len();
                match guarded(|| serde_yaml::to_string(obj)) {
                    Ok(Ok(text)) => {
                        out.ev(json!({"ev":"ser","obj":k,"out":"ok"}));
                        let re = if via == "str" {
                            load_text(&text)
                        } else {
                            match serde_yaml::from_str::<Y>(&text) {
                                Ok(v) => load_value(v),
                                Err(e) => Loaded::Err(e.to_string()),
                            }
                        };
                        let tag = re.tag();
                        match re {
                            Loaded::Ok(r2) => {
                                let fp1 = detection_fingerprint(&r2).unwrap_or_else(|e| format!("err1:{}", e));
                                out.ev(json!({"ev":"reload","from":k,"obj":me,"via":via,"out":"ok","same":fp0 == fp1}));
                                objs.push(Some(r2));
                            }
                            _ => {
                                out.ev(json!({"ev":"reload","from":k,"obj":me,"via":via,"out":tag,"same":false}));
                                objs.push(None);
                            }
                        }
                    }
                    Ok(Err(_)) => {
                        out.ev(json!({"ev":"ser","obj":k,"out":"err"}));
                        out.ev(json!({"ev":"reload","from":k,"obj":me,"via":via,"out":"err","same":false}));
                        objs.push(None);
                    }
                    Err(()) => {
                        out.ev(json!({"ev":"ser","obj":k,"out":"panic"}));
                        out.ev(json!({"ev":"reload","from":k,"obj":me,"via":via,"out":"err","same":false}));
                        objs.push(None);
                    }
                }
            }
            "edit" => {
                // the example lists are public fields: the owner clones the object and exchanges them
                let mut r2 = objs[k].as_ref().unwrap().clone();
                std::mem::swap(&mut r2.true_positives, &mut r2.true_negatives);
                out.ev(json!({"ev":"edit","from":k,"obj":objs.len(),"out":"ok"}));
                objs.push(Some(r2));
            }
            "reopt" => {
                let obj = objs[k].as_ref().unwrap();
                let me = objs.len();
                let before = expr_text(obj);
                let r2 = match sw_of(&st["sw2"]) {
                    Some(o) => guarded(|| obj.clone().optimise(o)),
                    None => Ok(obj.clone()),
                };
                match r2 {
                    Ok(r2) => {
                        out.ev(json!({"ev":"reopt","from":k,"obj":me,"sw2":st["sw2"],"out":"ok","same":expr_text(&r2) == before}));
                        objs.push(Some(r2));
                    }
                    Err(()) => {
                        out.ev(json!({"ev":"reopt","from":k,"obj":me,"sw2":st["sw2"],"out":"panic","same":false}));
                        objs.push(None);
                    }
                }
            }
            _ => out.ev(json!({"ev":"skip","why":cps("unknown step")})),
        }
    }
}
