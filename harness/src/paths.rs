//! Field-path resolution observed directly (C10): Object::find / Document::find on every
//! representation, the returned value converted back to the tagged-tree form.
use crate::docs::*;
use crate::enc::*;
use crate::run::*;
use serde_json::{json, Value as J};
use tau_engine::{Document, Value};

pub fn val_to_j(v: &Value, depth: usize) -> J {
    if depth > 40 {
        return json!({"t":"S","s":cps("<too deep>")});
    }
    match v {
        Value::Null => json!({"t":"N"}),
        Value::Bool(b) => json!({"t":"B","b":b}),
        Value::Int(i) => {
            let n = int_node(&i.to_string());
            json!({"t":"I","neg":n["neg"],"d":n["d"]})
        }
        Value::UInt(u) => json!({"t":"I","neg":false,"d":digits(&u.to_string())}),
        Value::Float(f) => {
            // only finite short values appear in the C10 universes
            let t = format!("{:?}", f);
            if t.contains('e') || t.contains("inf") || t.contains("NaN") {
                json!({"t":"F","neg":false,"d":[],"fr":[],"sp":"nan"})
            } else {
                let n = flt_node(&t);
                json!({"t":"F","neg":n["neg"],"d":n["d"],"fr":n["fr"],"sp":""})
            }
        }
        Value::String(s) => json!({"t":"S","s":cps(s)}),
        Value::Array(a) => json!({"t":"A","vs":a.iter().map(|x| val_to_j(&x, depth + 1)).collect::<Vec<_>>()}),
        Value::Object(o) => {
            let mut keys: Vec<String> = o.keys().iter().map(|k| k.to_string()).collect();
            keys.sort();
            let kv: Vec<J> = keys
                .iter()
                .filter_map(|k| o.get(k).map(|v| json!([cps(k), val_to_j(&v, depth + 1)])))
                .collect();
            json!({"t":"O","kv":kv})
        }
    }
}

fn find_on(doc: &dyn Document, key: &str) -> J {
    match guarded(|| doc.find(key).map(|v| val_to_j(&v, 0))) {
        Ok(Some(v)) => json!({"out":"some","v":v}),
        Ok(None) => json!({"out":"none","v":{"t":"none"}}),
        Err(()) => json!({"out":"panic","v":{"t":"none"}}),
    }
}

/// {"run":"find","doc":DOC,"keys":[cps..]}
pub fn run_find(case: &J, out: &mut Out) {
    out.ev(json!({"ev":"case","c":case}));
    let d = &case["doc"];
    let keys: Vec<String> = case["keys"]
        .as_array()
        .map(|a| a.iter().filter_map(|k| str_of(k).ok()).collect())
        .unwrap_or_default();
    let yaml = match doc_yaml(d) {
        Ok(serde_yaml::Value::Mapping(m)) => m,
        _ => {
            out.ev(json!({"ev":"skip","why":cps("root is not a mapping")}));
            return;
        }
    };
    let json_v = doc_json(d).ok();
    let hm = std_root(d, 0).ok();
    let own = own_root(d, false).ok();
    for (i, k) in keys.iter().enumerate() {
        let mut emit = |repr: &str, r: J| {
            out.ev(json!({"ev":"found","k":i,"repr":repr,"out":r["out"],"v":r["v"]}));
        };
        emit("yaml", find_on(&yaml, k));
        if let Some(j) = &json_v {
            emit("json", find_on(j, k));
        }
        if let Some(h) = &hm {
            emit("hm", find_on(h, k));
        }
        if let Some(o) = &own {
            emit("own", find_on(o, k));
        }
    }
}
