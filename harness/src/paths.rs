//! Field-path resolution observed directly (C10) and recorded find calls (C16).
use crate::run::*;
use serde_json::Value as J;

pub fn run_find(case: &J, out: &mut Out) {
    out.ev(serde_json::json!({"ev":"case","c":case}));
    out.ev(serde_json::json!({"ev":"skip","why":crate::enc::cps("not implemented")}));
}
