//! Encodings shared with the TLA+ specification (DESIGN.md 3.3): strings are arrays of code
//! points, numbers are sign + decimal digits, every node carries a tag.
use serde_json::{json, Value as J};

pub fn cps(s: &str) -> J {
    J::Array(s.chars().map(|c| json!(c as u32)).collect())
}

pub fn str_of(v: &J) -> Result<String, String> {
    let a = v.as_array().ok_or_else(|| format!("expected code point array, got {}", v))?;
    let mut s = String::new();
    for c in a {
        let n = c.as_u64().ok_or("bad code point")? as u32;
        s.push(char::from_u32(n).ok_or("invalid code point")?);
    }
    Ok(s)
}

pub fn digits_of(v: &J) -> Result<String, String> {
    let a = v.as_array().ok_or("expected digit array")?;
    let mut s = String::new();
    for c in a {
        let n = c.as_u64().ok_or("bad digit")?;
        if n > 9 {
            return Err("bad digit".into());
        }
        s.push((b'0' + n as u8) as char);
    }
    Ok(s)
}

pub fn digits(s: &str) -> J {
    J::Array(s.bytes().map(|b| json!((b - b'0') as u32)).collect())
}

/// integer number node from a decimal text such as "-12"
pub fn int_node(text: &str) -> J {
    let (neg, body) = match text.strip_prefix('-') {
        Some(b) => (true, b),
        None => (false, text),
    };
    json!({"k":"i","neg":neg,"d":digits(body)})
}

/// float number node from a plain decimal text such as "-1.50" (no exponent)
pub fn flt_node(text: &str) -> J {
    let (neg, body) = match text.strip_prefix('-') {
        Some(b) => (true, b),
        None => (false, text),
    };
    match body {
        "nan" => return json!({"k":"f","neg":false,"d":[],"fr":[],"sp":"nan"}),
        "inf" => return json!({"k":"f","neg":neg,"d":[],"fr":[],"sp":"inf"}),
        _ => {}
    }
    let (a, b) = match body.split_once('.') {
        Some((a, b)) => (a, b),
        None => (body, ""),
    };
    json!({"k":"f","neg":neg,"d":digits(a),"fr":digits(b),"sp":""})
}

/// decimal text of a number node ("-12", "1.5", "nan", "inf", "-inf")
pub fn num_text(n: &J) -> Result<String, String> {
    let neg = n["neg"].as_bool().unwrap_or(false);
    let k = n["k"].as_str().ok_or("number without kind")?;
    let mut d = digits_of(&n["d"])?;
    if d.is_empty() {
        d.push('0');
    }
    let sign = if neg { "-" } else { "" };
    if k == "i" {
        return Ok(format!("{}{}", sign, d));
    }
    match n["sp"].as_str().unwrap_or("") {
        "nan" => return Ok("nan".into()),
        "inf" => return Ok(format!("{}inf", sign)),
        _ => {}
    }
    let fr = digits_of(&n["fr"])?;
    if fr.is_empty() {
        Ok(format!("{}{}.0", sign, d))
    } else {
        Ok(format!("{}{}.{}", sign, d, fr))
    }
}

pub fn f64_of(n: &J) -> Result<f64, String> {
    let t = num_text(n)?;
    match t.as_str() {
        "nan" => Ok(f64::NAN),
        "inf" => Ok(f64::INFINITY),
        "-inf" => Ok(f64::NEG_INFINITY),
        _ => t.parse::<f64>().map_err(|e| e.to_string()),
    }
}

/// Deterministic xorshift64* generator seeded from VERIF_SEED.
pub struct Rng(pub u64);
impl Rng {
    pub fn new(seed: u64) -> Rng {
        let mut s = seed ^ 0x9E37_79B9_7F4A_7C15;
        if s == 0 {
            s = 0xDEAD_BEEF_CAFE_F00D;
        }
        let mut r = Rng(s);
        for _ in 0..8 {
            r.next();
        }
        r
    }
    pub fn next(&mut self) -> u64 {
        let mut x = self.0;
        x ^= x >> 12;
        x ^= x << 25;
        x ^= x >> 27;
        self.0 = x;
        x.wrapping_mul(0x2545_F491_4F6C_DD1D)
    }
    pub fn below(&mut self, n: usize) -> usize {
        if n == 0 {
            0
        } else {
            (self.next() % n as u64) as usize
        }
    }
    pub fn chance(&mut self, num: usize, den: usize) -> bool {
        self.below(den) < num
    }
    pub fn pick<'a, T>(&mut self, xs: &'a [T]) -> &'a T {
        &xs[self.below(xs.len())]
    }
}
