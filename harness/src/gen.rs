//! Seeded random case generators (impl -> spec direction): inputs beyond TLC's exhaustive bound.
use crate::enc::*;
use serde_json::{json, Value as J};
use std::fs::File;
use std::io::{BufWriter, Write};

pub fn gen_cases(topic: &str, seed: u64, n: usize, path: &str) -> Result<(), String> {
    let mut rng = Rng::new(seed);
    let mut w = BufWriter::new(File::create(path).map_err(|e| e.to_string())?);
    for i in 0..n {
        let c: J = match topic {
            _ => return Err(format!("unknown topic {}", topic)),
        };
        let _ = (&mut rng, i);
        writeln!(w, "{}", c).map_err(|e| e.to_string())?;
    }
    let _ = json!(null);
    let _ = cps("");
    Ok(())
}
