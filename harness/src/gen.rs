//! Seeded random case generators (impl -> spec direction): inputs beyond TLC's exhaustive bound.
//! Everything generated here is well typed by construction (the rule must load) and lies inside
//! the part of the rule language for which the specification has an oracle.
use crate::enc::*;
use serde_json::{json, Value as J};
use std::fs::File;
use std::io::{BufWriter, Write};

pub struct G {
    pub r: Rng,
    /// generate no negation context (not, not(k), of(.., 0))
    pub positive: bool,
    /// probability (percent) of deliberately producing constructs that trigger a known finding
    pub kf_pct: usize,
    /// documents that belong to the source just generated (shapes whose documents are not
    /// derived from the rule by `doc_for`)
    pub own_docs: Option<Vec<J>>,
    /// same_field_source: the quantified variants (topic samefq)
    pub samefq: bool,
}

const FIELDS: &[&str] = &["f", "g", "h", "n", "m", "s.t", "s.u", "arr", "o", "arr[1]", "lst[0]"];
const IDENTS: &[&str] = &["A", "B", "C", "D", "sel", "android", "order", "nothing", "allow", "offline", "notable", "orbit"];
const ALPHA: &[char] = &['a', 'b', 'A', 'B', 'c', '1', ' ', '.', 'é', 'É', '😀', 'ß', '-', '\u{a0}', '\\'];
const ALPHA_SMALL: &[char] = &['a', 'b', 'A', 'B'];

pub fn s_node(s: &str) -> J {
    json!({"t":"S","s":cps(s)})
}
pub fn i_node(text: &str) -> J {
    let n = int_node(text);
    json!({"t":"I","neg":n["neg"],"d":n["d"]})
}
pub fn f_node(text: &str) -> J {
    let n = flt_node(text);
    json!({"t":"F","neg":n["neg"],"d":n["d"],"fr":n["fr"],"sp":n["sp"]})
}
pub fn obj(kv: Vec<(String, J)>) -> J {
    json!({"t":"O","kv": kv.into_iter().map(|(k, v)| json!([cps(&k), v])).collect::<Vec<_>>()})
}

impl G {
    pub fn new(seed: u64) -> G {
        G { r: Rng::new(seed), kf_pct: 3, positive: false, own_docs: None, samefq: false }
    }

    pub fn word(&mut self, max: usize, small: bool) -> String {
        let n = self.r.below(max + 1);
        let al = if small || self.r.chance(2, 3) { ALPHA_SMALL } else { ALPHA };
        let mut w: Vec<char> = (0..n).map(|_| *self.r.pick(al)).collect();
        // a text that BEGINS with the letter i: the case prefix of the pattern syntax is an `i`
        if n >= 1 && self.r.chance(1, 12) {
            w[0] = if self.r.chance(3, 4) { 'i' } else { 'I' };
        }
        w.into_iter().collect()
    }

    pub fn int_text(&mut self) -> String {
        match self.r.below(12) {
            0 => "0".into(),
            1 => "1".into(),
            2 => "2".into(),
            3 => "-1".into(),
            4 => "5".into(),
            5 => "9223372036854775807".into(),
            6 => "-9223372036854775808".into(),
            7 => "10".into(),
            8 => "-5".into(),
            9 => format!("{}", self.r.next() as i64 >> self.r.below(63)),
            _ => format!("{}", self.r.below(20)),
        }
    }
    pub fn uint_text(&mut self) -> String {
        match self.r.below(8) {
            0 => "9223372036854775808".into(),
            1 => "18446744073709551615".into(),
            2 => format!("{}", self.r.next() >> self.r.below(64)),
            _ => {
                let t = self.int_text();
                t.trim_start_matches('-').to_string()
            }
        }
    }
    /// short dyadic decimal: exact in f64 and printed by Rust exactly as written (modulo ".0")
    pub fn flt_text(&mut self) -> String {
        let whole = [0u32, 1, 2, 5, 10, 1024][self.r.below(6)];
        let frac = ["0", "5", "25", "75", "125", "0625"][self.r.below(6)];
        let neg = self.r.chance(1, 4);
        format!("{}{}.{}", if neg { "-" } else { "" }, whole, frac)
    }

    // ------------------------------------------------------------------ patterns
    pub fn pattern(&mut self, allow_regex: bool) -> J {
        let ic = self.r.chance(1, 3);
        let kinds: &[&str] = if allow_regex {
            &["exact", "exact", "prefix", "suffix", "contains", "contains", "any", "regex"]
        } else {
            &["exact", "exact", "prefix", "suffix", "contains", "contains", "any"]
        };
        let k = *self.r.pick(kinds);
        match k {
            "any" => json!({"t":"pat","k":"any","ic":ic,"a":[]}),
            "regex" => {
                let mut atoms = vec![];
                let n = 1 + self.r.below(3);
                if self.r.chance(1, 5) {
                    atoms.push(json!({"t":"bol"}));
                    if self.r.chance(1, 2) {
                        atoms.push(json!({"t":"star"}));
                    }
                }
                for _ in 0..n {
                    let mut a = match self.r.below(11) {
                        0 => json!({"t":"dot"}),
                        1 => json!({"t":"star"}),
                        2 => json!({"t":"lazy"}),
                        3 => json!({"t":"c","c":46}),
                        4 => json!({"t":"cls","n":*self.r.pick(&["d", "D", "s", "S", "w", "W"])}),
                        5 => {
                            let k = 1 + self.r.below(2);
                            let cs: Vec<u32> = (0..k).map(|_| *self.r.pick(ALPHA_SMALL) as u32).collect();
                            json!({"t":"set","cs":cs,"neg":self.r.chance(1, 3)})
                        }
                        // letters with a non-ASCII case variant (s ~ LONG S, k ~ KELVIN SIGN, e-acute)
                        6 => json!({"t":"c","c": *self.r.pick(&['s', 'k', 'é', 'S', 'K']) as u32}),
                        _ => json!({"t":"c","c": *self.r.pick(ALPHA_SMALL) as u32}),
                    };
                    // repetition on a one-character atom (`.*` is the star atom)
                    if a["t"] != "star" && a["t"] != "lazy" && self.r.chance(1, 4) {
                        let reps: &[&str] = if a["t"] == "dot" { &["+", "?"] } else { &["+", "?", "*"] };
                        a["rep"] = json!(*self.r.pick(reps));
                    }
                    atoms.push(a);
                }
                if self.r.chance(1, 5) {
                    if self.r.chance(1, 2) {
                        atoms.push(json!({"t":"star"}));
                    }
                    atoms.push(json!({"t":"eol"}));
                }
                json!({"t":"pat","k":"regex","ic":ic,"a":atoms})
            }
            _ => {
                let mut a = self.word(3, false);
                a = a.replace('*', "");
                if k != "exact" && k != "contains" && a.is_empty() {
                    a = "a".into();
                }
                if k == "prefix" {
                    // keep the rendering unambiguous (render.rs refuses otherwise)
                    let c = a.chars().next().unwrap();
                    if "?><='\"i".contains(c) {
                        a = format!("b{}", a);
                    }
                }
                json!({"t":"pat","k":k,"ic":ic,"a":cps(&a)})
            }
        }
    }

    /// a string that relates to pattern p in an interesting way
    pub fn near(&mut self, p: &J) -> String {
        let anchored_star = p["k"] == "regex" && p["a"].as_array().map(|a| {
            (a.len() >= 2 && a[0]["t"] == "bol" && a[1]["t"] == "star")
                || (a.len() >= 2 && a[a.len() - 1]["t"] == "eol" && a[a.len() - 2]["t"] == "star")
        }).unwrap_or(false);
        if anchored_star && self.r.chance(1, 2) {
            // the text of the literal atoms with a line break before / after them: ".*" does not
            // cross it, so ^.*x differs from x exactly here
            let lits: String = p["a"].as_array().unwrap().iter()
                .filter(|a| a["t"] == "c").filter_map(|a| char::from_u32(a["c"].as_u64().unwrap_or(97) as u32)).collect();
            return match self.r.below(3) { 0 => format!("q\n{}", lits), 1 => format!("{}\nq", lits), _ => format!("q\n{}\nq", lits) };
        }
        if p["k"] == "regex" || p["k"] == "any" {
            let mut s = String::new();
            if let Some(atoms) = p["a"].as_array() {
                for a in atoms {
                    // how often a repeated atom occurs in the near-match: 0, 1 or 2 times
                    let times = match a["rep"].as_str() { Some("+") => 1 + self.r.below(2), Some("?") => self.r.below(2), Some("*") => self.r.below(3), _ => 1 };
                    for _ in 0..times {
                        match a["t"].as_str().unwrap_or("") {
                            "c" => {
                                let c = char::from_u32(a["c"].as_u64().unwrap_or(97) as u32).unwrap_or('a');
                                // sometimes the non-ASCII case variant of the letter
                                let v = match c { 's' | 'S' => 'ſ', 'k' | 'K' => '\u{212a}', 'é' => 'É', x => x };
                                s.push(if v != c && self.r.chance(1, 2) { v } else { c });
                            }
                            "dot" => s.push(*self.r.pick(ALPHA_SMALL)),
                            "cls" => s.push(*self.r.pick(&['1', ' ', 'a', '-', 'é', '_', '\n', 'B'])),
                            "set" => {
                                let members: Vec<char> = a["cs"].as_array().map(|v| v.iter().filter_map(|c| char::from_u32(c.as_u64().unwrap_or(97) as u32)).collect()).unwrap_or_default();
                                if self.r.chance(2, 3) && !members.is_empty() { s.push(*self.r.pick(&members)) } else { s.push(*self.r.pick(ALPHA_SMALL)) }
                            }
                            "star" | "lazy" => s.push_str(&self.word(2, true)),
                            _ => {}
                        }
                    }
                }
            }
            return self.decorate(s);
        }
        let a = str_of(&p["a"]).unwrap_or_default();
        self.decorate(a)
    }
    fn decorate(&mut self, a: String) -> String {
        let a = if self.r.chance(1, 12) {
            // a line break before / after: '.' does not cross it, ^ and $ are text anchors
            match self.r.below(3) { 0 => format!("x\n{}", a), 1 => format!("{}\ny", a), _ => format!("b\n{}\na", a) }
        } else { a };
        let a = match self.r.below(4) {
            0 => a.to_uppercase(),
            1 => a.to_lowercase(),
            _ => a,
        };
        match self.r.below(6) {
            0 => format!("{}{}", self.word(2, true), a),
            1 => format!("{}{}", a, self.word(2, true)),
            2 => format!("{}{}{}", self.word(1, true), a, self.word(1, true)),
            3 => {
                let mut c: Vec<char> = a.chars().collect();
                if !c.is_empty() {
                    let i = self.r.below(c.len());
                    c[i] = *self.r.pick(ALPHA_SMALL);
                }
                c.into_iter().collect()
            }
            _ => a,
        }
    }

    // ------------------------------------------------------------------ values of a rule
    fn num_const(&mut self, float: bool) -> J {
        if float {
            flt_node(&self.flt_text())
        } else {
            int_node(&self.int_text())
        }
    }
    fn cmp_val(&mut self, float: bool) -> J {
        let op = *self.r.pick(&["eq", "gt", "ge", "lt", "le"]);
        json!({"t":"cmp","op":op,"n":self.num_const(float)})
    }

    /// scalar member value of type class `class`: "str" | "num" | "bool" | "null"
    pub fn scalar(&mut self, class: &str, cast: &str) -> J {
        match class {
            "str" => {
                if cast == "str" && self.r.chance(1, 3) {
                    if self.r.chance(1, 2) {
                        { let fl = self.r.chance(1, 3); json!({"t":"num","n":self.num_const(fl)}) }
                    } else {
                        json!({"t":"bool","b":self.r.chance(1, 2)})
                    }
                } else {
                    self.pattern(true)
                }
            }
            "num" => {
                let float = match cast {
                    "int" => false,
                    "flt" => true,
                    _ => self.r.chance(1, 3),
                };
                if cast == "int" && self.r.chance(1, 5) {
                    json!({"t":"bool","b":self.r.chance(1, 2)})
                } else if self.r.chance(1, 2) {
                    json!({"t":"num","n":self.num_const(float)})
                } else {
                    self.cmp_val(float)
                }
            }
            "bool" => json!({"t":"bool","b":self.r.chance(1, 2)}),
            _ => json!({"t":"null"}),
        }
    }

    fn field(&mut self, nested: bool) -> String {
        if nested {
            (*self.r.pick(&["f", "g", "n", "t", "u"])).to_string()
        } else {
            (*self.r.pick(FIELDS)).to_string()
        }
    }

    pub fn entry(&mut self, depth: usize, nested: bool) -> J {
        let f = self.field(nested);
        let roll = self.r.below(100);
        // (modifier, value)
        let (m, c, v): (&str, u64, J) = if roll < 40 {
            ("none", 0, self.scalar("str", "none"))
        } else if roll < 50 {
            ("none", 0, self.scalar("num", "none"))
        } else if roll < 54 {
            let class = if self.r.chance(1, 2) { "bool" } else { "null" };
            ("none", 0, self.scalar(class, "none"))
        } else if roll < 62 && depth > 0 {
            let n = 1 + self.r.below(2);
            let es: Vec<J> = (0..n).map(|_| self.entry(depth - 1, true)).collect();
            ("none", 0, json!({"t":"map","es":dedup_entries(es)}))
        } else if roll < 72 {
            // plain list, possibly mixed classes; a member often shares kind family and case flag
            // with its predecessor so that batches of two and more are common
            let n = 1 + self.r.below(4);
            let mut vs: Vec<J> = vec![];
            for _ in 0..n {
                let class = *self.r.pick(&["str", "str", "str", "num", "bool", "null"]);
                let mut v = self.scalar(class, "none");
                if let Some(prev) = vs.last() {
                    // the same text under another kind (foo* next to *foo): batches must keep their
                    // needles and kinds aligned
                    if prev["t"] == "pat" && v["t"] == "pat" && prev["k"] != "regex" && prev["k"] != "any"
                        && v["k"] != "regex" && v["k"] != "any" && self.r.chance(1, 4)
                    {
                        let a = str_of(&prev["a"]).unwrap_or_default();
                        let ok_prefix = !a.is_empty() && !"?><='\"i".contains(a.chars().next().unwrap());
                        if v["k"] != "prefix" || ok_prefix {
                            if !(a.is_empty() && (v["k"] == "prefix" || v["k"] == "suffix")) {
                                v["a"] = prev["a"].clone();
                                v["ic"] = prev["ic"].clone();
                            }
                        }
                    }
                    if prev["t"] == "pat" && v["t"] == "pat" && self.r.chance(1, 2) {
                        v["ic"] = prev["ic"].clone();
                        if prev["k"] == "regex" && v["k"] != "regex" && self.r.chance(1, 2) {
                            let mut p2 = self.pattern(true);
                            for _ in 0..6 {
                                if p2["k"] == "regex" { break; }
                                p2 = self.pattern(true);
                            }
                            p2["ic"] = prev["ic"].clone();
                            v = p2;
                        }
                    }
                }
                vs.push(v);
            }
            if depth > 0 && self.r.chance(1, 6) {
                vs.push(json!({"t":"map","es":[self.entry(depth - 1, true)]}));
            }
            ("none", 0, json!({"t":"list","vs":vs}))
        } else if roll < 82 {
            // quantified list: one type class
            let class = *self.r.pick(&["str", "str", "str", "num", "bool"]);
            let n = 1 + self.r.below(4);
            let mut vs: Vec<J> = (0..n).map(|_| self.scalar(class, "none")).collect();
            if class == "str" && !self.r.chance(self.kf_pct, 100) {
                vs = avoid_partial_batch(vs);
            }
            if self.r.chance(1, 2) {
                ("all", 0, json!({"t":"list","vs":vs}))
            } else {
                let mut c = self.r.below(n + 2) as u64;
                if self.positive && c == 0 {
                    c = 1;
                }
                ("of", c, json!({"t":"list","vs":vs}))
            }
        } else if roll < 88 {
            let v = if self.r.chance(1, 3) {
                let n = 1 + self.r.below(3);
                json!({"t":"list","vs":(0..n).map(|_| self.scalar("str", "none")).collect::<Vec<_>>()})
            } else {
                let class = *self.r.pick(&["str", "str", "num", "bool", "null"]);
                self.scalar(class, "none")
            };
            (if self.positive { "none" } else { "not" }, 0, v)
        } else if roll < 92 {
            let v = if self.r.chance(1, 4) {
                let n = 1 + self.r.below(3);
                json!({"t":"list","vs":(0..n).map(|_| self.scalar("num", "int")).collect::<Vec<_>>()})
            } else {
                self.scalar("num", "int")
            };
            ("int", 0, v)
        } else if roll < 95 {
            ("flt", 0, self.scalar("num", "flt"))
        } else {
            let v = if self.r.chance(1, 4) {
                let n = 1 + self.r.below(3);
                json!({"t":"list","vs":(0..n).map(|_| self.scalar("str", "str")).collect::<Vec<_>>()})
            } else {
                self.scalar("str", "str")
            };
            ("str", 0, v)
        };
        json!({"m":m,"c":c,"f":cps(&f),"v":v})
    }

    pub fn mapping(&mut self, depth: usize) -> J {
        let n = 1 + self.r.below(3);
        let es: Vec<J> = (0..n).map(|_| self.entry(depth, false)).collect();
        json!({"t":"map","es":dedup_entries(es)})
    }

    pub fn body(&mut self, depth: usize) -> J {
        if self.r.chance(1, 4) {
            let n = 1 + self.r.below(3);
            json!({"t":"seq","ms":(0..n).map(|_| self.mapping(depth)).collect::<Vec<_>>()})
        } else {
            self.mapping(depth)
        }
    }

    // ------------------------------------------------------------------ condition
    fn operand(&mut self, kind: &str) -> J {
        if self.r.chance(1, 2) || kind == "str" {
            json!({"t":"cast","k":kind,"f":cps(&self.field(false))})
        } else if kind == "int" {
            let mut t = self.int_text().trim_start_matches('-').to_string();
            if t.parse::<i64>().is_err() {
                t = "9223372036854775807".into();
            }
            json!({"t":"const","n":int_node(&t)})
        } else {
            let t = self.flt_text();
            json!({"t":"const","n":flt_node(t.trim_start_matches('-'))})
        }
    }

    pub fn cond(&mut self, names: &[String], quantifiable: &[String], depth: usize) -> J {
        let roll = self.r.below(100);
        if depth == 0 || roll < 30 {
            let n = self.r.pick(names).clone();
            return match self.r.below(10) {
                0 if !quantifiable.is_empty() => { let q = self.r.pick(quantifiable).clone(); json!({"t":"all","n":cps(&q)}) },
                1 if !quantifiable.is_empty() => {
                    let q = self.r.pick(quantifiable).clone();
                    let c = if self.positive { 1 + self.r.below(3) } else { self.r.below(4) };
                    json!({"t":"of","n":cps(&q),"c":c})
                }
                2 => {
                    let kind = *self.r.pick(&["int", "int", "flt", "str"]);
                    let op = if kind == "str" { "eq" } else { *self.r.pick(&["eq", "gt", "ge", "lt", "le"]) };
                    let mut l = self.operand(kind);
                    let mut r = self.operand(kind);
                    if l["t"] == "const" && r["t"] == "const" {
                        l = json!({"t":"cast","k":kind,"f":cps(&self.field(false))});
                    }
                    if self.r.chance(1, 8) {
                        l = json!({"t":"par","e":l});
                    }
                    if self.r.chance(1, 8) {
                        r = json!({"t":"par","e":r});
                    }
                    json!({"t":"cmp","op":op,"l":l,"r":r})
                }
                _ => json!({"t":"id","n":cps(&n)}),
            };
        }
        if roll < 55 {
            json!({"t":"and","l":self.cond(names, quantifiable, depth - 1),"r":self.cond(names, quantifiable, depth - 1)})
        } else if roll < 80 {
            json!({"t":"or","l":self.cond(names, quantifiable, depth - 1),"r":self.cond(names, quantifiable, depth - 1)})
        } else if roll < 95 && !self.positive {
            json!({"t":"not","e":self.cond(names, quantifiable, depth - 1)})
        } else {
            json!({"t":"par","e":self.cond(names, quantifiable, depth - 1)})
        }
    }

    /// an or of ands whose atoms are one-key identifiers over a small pool of fields (so that the
    /// matrix optimisation fires) and cast comparisons, field against constant and field against field
    pub fn matrix_source(&mut self) -> J {
        let fields = ["f", "g", "h", "n"];
        let nid = 2 + self.r.below(4);
        let mut ids = vec![];
        let mut names = vec![];
        for i in 0..nid {
            let name = IDENTS[i].to_string();
            let f = *self.r.pick(&fields);
            let v = match self.r.below(6) {
                0 => self.scalar("num", "none"),
                1 => json!({"t":"null"}),
                2 => json!({"t":"bool","b":self.r.chance(1, 2)}),
                _ => self.pattern(true),
            };
            let mut es = vec![json!({"m":"none","c":0,"f":cps(f),"v":v})];
            if self.r.chance(1, 3) {
                let f2 = *self.r.pick(&fields);
                if f2 != f {
                    es.push(json!({"m":"none","c":0,"f":cps(f2),"v":self.pattern(false)}));
                }
            }
            ids.push(json!([cps(&name), {"t":"map","es":es}]));
            names.push(name);
        }
        // a RANGE on one field written in one block / one and-term (`n: '>=1'` with `int(n): '<3'`,
        // `int(n) > 0 and int(n) <= 2`): one row of the matrix then has two cells for one column
        let range_field = *self.r.pick(&["n", "h"]);
        if self.r.chance(1, 3) {
            let lo = self.r.below(3);
            let hi = lo + 1 + self.r.below(2);
            let other = *self.r.pick(&["f", "g"]);
            let blk = |a: &str, b: &str, ov: J| json!({"t":"map","es":[
                {"m":"none","c":0,"f":cps(range_field),"v":{"t":"cmp","op":a,"n":int_node(&format!("{}", lo))}},
                {"m":"int","c":0,"f":cps(range_field),"v":{"t":"cmp","op":b,"n":int_node(&format!("{}", hi))}},
                {"m":"none","c":0,"f":cps(other),"v":ov}]});
            let ms = vec![blk("ge", "lt", self.pattern(false)),
                          json!({"t":"map","es":[{"m":"none","c":0,"f":cps(range_field),"v":{"t":"num","n":int_node(&format!("{}", hi + 1))}},
                                                 {"m":"none","c":0,"f":cps(other),"v":self.pattern(false)}]})];
            let name = IDENTS[nid].to_string();
            ids.push(json!([cps(&name), {"t":"seq","ms":ms}]));
            names.push(name);
        }
        let mut terms = vec![];
        let nt = 2 + self.r.below(3);
        for _ in 0..nt {
            let na = 1 + self.r.below(3);
            let mut atoms = vec![];
            if na >= 2 && self.r.chance(1, 4) {
                let lo = self.r.below(3);
                let l = json!({"t":"cast","k":"int","f":cps(range_field)});
                atoms.push(json!({"t":"cmp","op":"gt","l":l.clone(),"r":{"t":"const","n":int_node(&format!("{}", lo))}}));
                atoms.push(json!({"t":"cmp","op":"le","l":l,"r":{"t":"const","n":int_node(&format!("{}", lo + 1 + self.r.below(2)))}}));
            }
            for _ in 0..na {
                let a = if self.r.chance(1, 4) {
                    let kind = *self.r.pick(&["int", "flt", "str"]);
                    let op = if kind == "str" { "eq" } else { *self.r.pick(&["eq", "gt", "le"]) };
                    let l = json!({"t":"cast","k":kind,"f":cps(*self.r.pick(&fields))});
                    let r = if kind == "str" || self.r.chance(1, 2) {
                        json!({"t":"cast","k":kind,"f":cps(*self.r.pick(&fields))})
                    } else if kind == "int" {
                        json!({"t":"const","n":int_node(&format!("{}", self.r.below(5)))})
                    } else {
                        json!({"t":"const","n":flt_node("1.5")})
                    };
                    json!({"t":"cmp","op":op,"l":l,"r":r})
                } else {
                    { let nm = self.r.pick(&names).clone(); json!({"t":"id","n":cps(&nm)}) }
                };
                atoms.push(a);
            }
            let t = atoms.into_iter().reduce(|l, r| json!({"t":"and","l":l,"r":r})).unwrap();
            terms.push(if t["t"] == "and" { json!({"t":"par","e":t}) } else { t });
        }
        let mut cond = terms.into_iter().reduce(|l, r| json!({"t":"or","l":l,"r":r})).unwrap();
        if !self.positive && self.r.chance(1, 3) {
            cond = json!({"t":"not","e":{"t":"par","e":cond}});
        }
        let src = json!({"cond":cond,"ids":ids});
        // half of the documents: every field present, then ONE field dropped - a row of the matrix
        // that reads the dropped field is missing, the rows after it still decide
        if self.r.chance(1, 2) {
            let mut docs: Vec<J> = (0..3).map(|_| self.doc_for(&src)).collect();
            for _ in 0..3 {
                let mut d = self.doc_complete(&src);
                if let Some(kv) = d.get_mut("kv").and_then(|k| k.as_array_mut()) {
                    if kv.len() >= 2 {
                        let i = self.r.below(kv.len());
                        kv.remove(i);
                    }
                }
                docs.push(d);
            }
            self.own_docs = Some(docs);
        }
        src
    }

    /// Shapes in which the optimiser regroups predicates on ONE field that differ in a flag:
    ///  0  `str(code): pat` next to `code: pat` (the cast flag) - a sequence of mappings or or-ed
    ///     identifiers; the field holds numbers, booleans and texts
    ///  1  a list of patterns and its case-insensitive TWIN under two identifiers, `A or B` /
    ///     `A and B` in both orders (the case flag)
    ///  2  a sequence of multi-key mappings whose shared key is written with int() / flt()
    ///     (matrix cells keep their cast); the field holds numeric texts, booleans, fractions
    pub fn flag_mix_source(&mut self) -> J {
        let v = [0usize, 0, 1, 2, 3, 4, 5, 6, 0, 7][self.r.below(10)];
        self.flag_mix_variant(v)
    }
    pub fn flag_mix_variant(&mut self, variant: usize) -> J {
        let ent = |m: &str, f: &str, v: J| json!({"m":m,"c":0,"f":cps(f),"v":v});
        let pat = |k: &str, ic: bool, a: &str| json!({"t":"pat","k":k,"ic":ic,"a":cps(a)});
        match variant {
            // 7  all(X) / of(X, n) over a SEQUENCE identifier in which one entry carries a list of numbers
            //    or comparisons (an or-group inside the sequence's or-group): the entries are the
            //    mappings, however the optimiser treats the identifier on its own (coalesce off)
            7 => {
                let lst = if self.r.chance(1, 2) { json!({"t":"list","vs":[{"t":"num","n":int_node("1")}, {"t":"num","n":int_node("2")}]}) }
                          else { json!({"t":"list","vs":[{"t":"cmp","op":"gt","n":int_node("0")}, {"t":"cmp","op":"lt","n":int_node("10")}, {"t":"num","n":int_node("3")}]}) };
                let ms = vec![json!({"t":"map","es":[ent("none", "n", lst)]}), json!({"t":"map","es":[ent("none", "g", pat("exact", false, "x"))]}),
                              json!({"t":"map","es":[ent("none", "h", pat("exact", false, "x"))]})];
                let cnt = self.r.below(4) as u64;
                let cond = if self.r.chance(1, 3) { json!({"t":"all","n":cps("A")}) } else { json!({"t":"of","n":cps("A"),"c":cnt}) };
                let docs: Vec<J> = (0..6).map(|_| {
                    let mut kv = vec![("n".to_string(), i_node(*self.r.pick(&["1", "2", "3", "7", "-1", "4"])))];
                    for f in ["g", "h"] { match self.r.below(3) { 0 => {} 1 => kv.push((f.to_string(), s_node("x"))), _ => kv.push((f.to_string(), s_node("y"))) } }
                    obj(kv)
                }).collect();
                self.own_docs = Some(docs);
                json!({"cond":cond,"ids":[[cps("A"),{"t":"seq","ms":ms}]]})
            }
            // 6  `not (A and B)` / `not (B and A)` where A is one predicate and B a mapping with two or
            //    three keys (an and-group that the optimiser flattens into the outer one): documents
            //    leave A's field out and make a member of B false, and the other way round
            6 => {
                let nb = 2 + self.r.below(2);
                let bf = ["g", "h", "n"];
                let a = json!({"t":"map","es":[ent("none", "f", pat("exact", false, "x"))]});
                let b = json!({"t":"map","es":(0..nb).map(|i| ent("none", bf[i], pat("exact", false, "x"))).collect::<Vec<_>>()});
                let (l, r) = if self.r.chance(1, 2) { ("A", "B") } else { ("B", "A") };
                let inner = json!({"t":"and","l":{"t":"id","n":cps(l)},"r":{"t":"id","n":cps(r)}});
                let cond = if self.r.chance(3, 4) { json!({"t":"not","e":{"t":"par","e":inner}}) } else { inner };
                let docs: Vec<J> = (0..6).map(|_| {
                    let mut kv = vec![];
                    for f in ["f", "g", "h", "n"].iter().take(nb + 1) {
                        match self.r.below(3) { 0 => {} 1 => kv.push((f.to_string(), s_node("x"))), _ => kv.push((f.to_string(), s_node("y"))) }
                    }
                    obj(kv)
                }).collect();
                self.own_docs = Some(docs);
                json!({"cond":cond,"ids":[[cps("A"), a], [cps("B"), b]]})
            }
            // 5  a conjunction made ONLY of negations - a mapping whose keys are all not(k), or
            //    `not A and not B and not C` - over different fields; documents leave some fields out
            //    and give the others values that do not match (not missing = false, not false = true)
            5 => {
                let fields = ["f", "g", "h"];
                let n = 2 + self.r.below(2);
                let docs: Vec<J> = (0..6).map(|_| {
                    let mut kv = vec![];
                    for f in fields.iter().take(n) {
                        match self.r.below(3) { 0 => {} 1 => kv.push((f.to_string(), s_node("x"))), _ => kv.push((f.to_string(), s_node("y"))) }
                    }
                    obj(kv)
                }).collect();
                self.own_docs = Some(docs);
                if self.r.chance(1, 2) {
                    let es: Vec<J> = (0..n).map(|i| ent("not", fields[i], pat("exact", false, "x"))).collect();
                    json!({"cond":{"t":"id","n":cps("A")},"ids":[[cps("A"),{"t":"map","es":es}]]})
                } else {
                    let ids: Vec<J> = (0..n).map(|i| json!([cps(IDENTS[i]), {"t":"map","es":[ent("none", fields[i], pat("exact", false, "x"))]}])).collect();
                    let cond = (0..n).map(|i| json!({"t":"not","e":{"t":"id","n":cps(IDENTS[i])}})).reduce(|l, r| json!({"t":"and","l":l,"r":r})).unwrap();
                    json!({"cond":cond,"ids":ids})
                }
            }
            // 4  a LIST of regexes (one RegexSet) in which a member is no longer a regex once its
            //    leading / trailing `.*` is cut (`.*?x` -> `?x`, `x\.*` -> `x\`): rewrite must keep it
            4 => {
                let ic = self.r.chance(1, 2);
                let c = |ch: char| json!({"t":"c","c":ch as u32});
                let pool: Vec<Vec<J>> = vec![
                    vec![json!({"t":"lazy"}), c('a')],
                    vec![c('b'), json!({"t":"c","c":46,"rep":"*"})],
                    vec![json!({"t":"star"}), c('a'), c('b')],
                    vec![c('A'), json!({"t":"star"})],
                    vec![json!({"t":"bol"}), c('b')],
                    // `.*` next to its anchor must stay: `.` does not cross a line break
                    vec![json!({"t":"star"})],                                   // exactly `.*`
                    vec![json!({"t":"bol"}), json!({"t":"star"}), c('a')],
                    vec![c('b'), json!({"t":"star"}), json!({"t":"eol"})],
                ];
                let n = 2 + self.r.below(2);
                let mut vs = vec![];
                for _ in 0..n {
                    vs.push(json!({"t":"pat","k":"regex","ic":ic,"a":self.r.pick(&pool).clone()}));
                }
                // regexes with LARGE compiled programs (eighty word-class atoms and a letter): each compiles
                // alone, three of them in one set exceed the regex crate's default size limit - whatever
                // builds the set (the list at load, shake for or-ed identifiers) must not panic
                let mut n = n;
                let mut big = false;
                if self.r.chance(1, 6) {
                    big = true;
                    vs.clear();
                    n = 3;
                    for l in ['a', 'b', 'c'] {
                        let mut atoms: Vec<J> = (0..80).map(|_| json!({"t":"cls","n":"w"})).collect();
                        atoms.push(c(l));
                        vs.push(json!({"t":"pat","k":"regex","ic":ic,"a":atoms}));
                    }
                }
                let hay = ["a", "xa", "b..", "b", "xab", "Ay", "q", "ba", "q\na", "b\nq", "q\nb\nq"];
                self.own_docs = Some((0..5).map(|_| obj(vec![("f".into(), s_node(*self.r.pick(&hay)))])).collect());
                // (as ONE list the big regexes are rejected at load - a set that cannot be built is an error -
                // so they only come as separate identifiers)
                if !big && self.r.chance(1, 4) {
                    // a list and its case-flag twin (the same regex TEXTS) as two identifiers, each or-ed with a
                    // further predicate so that shake rebuilds both sets in one optimise() call
                    let twin: Vec<J> = vs.iter().map(|p| { let mut q = p.clone(); q["ic"] = json!(!ic); q }).collect();
                    let extra = json!({"t":"pat","k":"exact","ic":false,"a":cps("zz")});
                    let mut v1 = vs.clone(); v1.push(extra.clone());
                    let mut v2 = twin; v2.push(extra);
                    let (x, y) = if self.r.chance(1, 2) { ("A", "B") } else { ("B", "A") };
                    return json!({"cond":{"t":"or","l":{"t":"id","n":cps(x)},"r":{"t":"id","n":cps(y)}},
                                  "ids":[[cps("A"),{"t":"map","es":[ent("none", "f", json!({"t":"list","vs":v1}))]}],
                                         [cps("B"),{"t":"map","es":[ent("none", "f", json!({"t":"list","vs":v2}))]}]]});
                }
                if !big && self.r.chance(1, 2) {
                    // plain list, or under a quantifier (members that become equal once `.*` is stripped still count apiece)
                    let (m, cnt) = match self.r.below(4) { 0 => ("of", 2u64), 1 => ("all", 0), _ => ("none", 0) };
                    json!({"cond":{"t":"id","n":cps("A")},"ids":[[cps("A"),{"t":"map","es":[{"m":m,"c":cnt,"f":cps("f"),"v":{"t":"list","vs":vs}}]}]]})
                } else {
                    // the same regexes as lone predicates under or-ed identifiers (shake merges them)
                    let ids: Vec<J> = vs.iter().enumerate().map(|(i, p)| json!([cps(IDENTS[i]), {"t":"map","es":[ent("none", "f", p.clone())]}])).collect();
                    let cond = (0..n).map(|i| json!({"t":"id","n":cps(IDENTS[i])})).reduce(|l, r| json!({"t":"or","l":l,"r":r})).unwrap();
                    json!({"cond":cond,"ids":ids})
                }
            }
            // 3  a case-insensitive regex that is pure literal text (with `.*` around it or not) over
            //    letters that have a non-ASCII case variant; the field holds those variants
            3 => {
                let word = *self.r.pick(&["task", "kes", "sé", "ks"]);
                let mut atoms: Vec<J> = word.chars().map(|c| json!({"t":"c","c":c as u32})).collect();
                if self.r.chance(1, 2) { atoms.insert(0, json!({"t":"star"})); }
                if self.r.chance(1, 2) { atoms.push(json!({"t":"star"})); }
                let ic = self.r.chance(3, 4);
                let p = json!({"t":"pat","k":"regex","ic":ic,"a":atoms});
                let v = if self.r.chance(1, 2) { p } else { json!({"t":"list","vs":[p, pat("exact", false, "zz")]}) };
                let variants = |w: &str| -> Vec<String> {
                    vec![w.to_string(), w.to_uppercase(), w.replace('s', "ſ"), w.replace('k', "\u{212a}"), w.replace('é', "É"),
                         format!("x{}y", w.replace('s', "ſ").replace('k', "\u{212a}")), "q".to_string()]
                };
                let vs = variants(word);
                self.own_docs = Some((0..6).map(|_| obj(vec![("f".into(), s_node(&self.r.pick(&vs[..]).clone()))])).collect());
                json!({"cond":{"t":"id","n":cps("A")},"ids":[[cps("A"),{"t":"map","es":[ent("none", "f", v)]}]]})
            }
            0 => {
                let n = 2 + self.r.below(2);
                let mut preds = vec![];
                for i in 0..n {
                    let digit = ["4", "5", "t", "1"][i % 4];
                    let k = *self.r.pick(&["prefix", "contains", "exact", "suffix"]);
                    let m = if i == 0 || self.r.chance(1, 3) { "str" } else { "none" };
                    preds.push(json!({"t":"map","es":[ent(m, "code", pat(k, false, digit))]}));
                }
                // ... and a NUMBER predicate on the same field (its value is then read as a number by
                // one entry and as text by another)
                let mut numeric: Option<&str> = None;
                if self.r.chance(1, 2) {
                    let c = *self.r.pick(&["500", "4", "14"]);
                    let m = if self.r.chance(1, 4) { "str" } else { "none" };
                    preds.push(json!({"t":"map","es":[ent(m, "code", json!({"t":"num","n":int_node(c)}))]}));
                    numeric = Some(c);
                }
                let n = preds.len();
                if self.r.chance(1, 2) { preds.swap(0, n - 1); }
                let vals = [i_node("400"), i_node("500"), i_node("4"), i_node("5"), s_node("4x"), s_node("5"), s_node("x5"),
                            json!({"t":"B","b":true}), f_node("45.5"), i_node("14"), s_node("q")];
                let mut docs: Vec<J> = (0..6).map(|_| obj(vec![("code".into(), self.r.pick(&vals).clone())])).collect();
                if let Some(c) = numeric {
                    docs[0] = obj(vec![("code".into(), i_node(c))]);     // the value the number predicate names
                }
                self.own_docs = Some(docs);
                if self.r.chance(1, 2) {
                    json!({"cond":{"t":"id","n":cps("A")},"ids":[[cps("A"),{"t":"seq","ms":preds}]]})
                } else {
                    let ids: Vec<J> = preds.iter().enumerate().map(|(i, p)| json!([cps(IDENTS[i]), p])).collect();
                    let cond = (0..n).map(|i| json!({"t":"id","n":cps(IDENTS[i])})).reduce(|l, r| json!({"t":"or","l":l,"r":r})).unwrap();
                    json!({"cond":cond,"ids":ids})
                }
            }
            1 => {
                let words = ["ab", "cd", "ba"];
                let n = 2 + self.r.below(2);
                let kinds: Vec<&str> = (0..n).map(|_| *self.r.pick(&["prefix", "suffix", "contains", "exact"])).collect();
                let list = |ic: bool| json!({"t":"list","vs":(0..n).map(|i| pat(kinds[i], ic, words[i % 3])).collect::<Vec<_>>()});
                let ids = json!([[cps("A"), {"t":"map","es":[ent("none", "f", list(false))]}],
                                 [cps("B"), {"t":"map","es":[ent("none", "f", list(true))]}]]);
                let (l, r) = if self.r.chance(1, 2) { ("A", "B") } else { ("B", "A") };
                let op = if self.r.chance(1, 2) { "or" } else { "and" };
                let vals = ["abx", "ABx", "xcd", "xCD", "q", "ab", "AB", "Ba", "xbaX", "cd"];
                self.own_docs = Some((0..6).map(|_| obj(vec![("f".into(), s_node(*self.r.pick(&vals)))])).collect());
                json!({"cond":{"t":op,"l":{"t":"id","n":cps(l)},"r":{"t":"id","n":cps(r)}},"ids":ids})
            }
            _ => {
                let cast = if self.r.chance(2, 3) { "int" } else { "flt" };
                let c1 = if cast == "int" { json!({"t":"num","n":int_node("5")}) } else { json!({"t":"num","n":flt_node("5.5")}) };
                let c2 = if cast == "int" { json!({"t":"cmp","op":"gt","n":int_node("7")}) } else { json!({"t":"cmp","op":"gt","n":flt_node("7.5")}) };
                let rows = vec![json!({"t":"map","es":[ent(cast, "n", c1), ent("none", "g", pat("exact", false, "x"))]}),
                                json!({"t":"map","es":[ent(cast, "n", c2), ent("none", "g", pat("exact", false, "y"))]}),
                                json!({"t":"map","es":[ent("none", "g", pat("exact", false, "z")), ent("none", "h", pat("any", false, ""))]})];
                let nvals = [s_node("5"), s_node("8"), json!({"t":"B","b":true}), f_node("5.2"), f_node("5.5"), i_node("5"), i_node("8"), s_node("5.5"), s_node("q"), f_node("8.5")];
                let gvals = ["x", "y", "z"];
                self.own_docs = Some((0..6).map(|_| {
                    let mut kv = vec![("n".to_string(), self.r.pick(&nvals).clone()), ("g".to_string(), s_node(*self.r.pick(&gvals)))];
                    if self.r.chance(1, 3) { kv.push(("h".into(), s_node("w"))); }
                    obj(kv)
                }).collect());
                if self.r.chance(1, 2) {
                    json!({"cond":{"t":"id","n":cps("A")},"ids":[[cps("A"),{"t":"seq","ms":rows}]]})
                } else {
                    let ids: Vec<J> = rows.iter().enumerate().map(|(i, p)| json!([cps(IDENTS[i]), p])).collect();
                    json!({"cond":{"t":"or","l":{"t":"or","l":{"t":"id","n":cps("A")},"r":{"t":"id","n":cps("B")}},"r":{"t":"id","n":cps("C")}},"ids":ids})
                }
            }
        }
    }

    /// C12 shapes.  0: all(f)/of(f, n) over two or three string patterns while the field holds a number,
    /// a boolean, null or an object (the "not searchable" path) or a text.  1: a sequence of 6-8
    /// mappings, each one list of three patterns on its own field: after shake an or-group of several
    /// batches of EQUAL size and case flag, whose printed order must not vary from call to call
    pub fn pure_shape_source(&mut self) -> J {
        let pat = |k: &str, a: &str| json!({"t":"pat","k":k,"ic":false,"a":cps(a)});
        // 4: a condition that names an identifier in a spelling NO key has, while two keys differ from it
        // only in letter case: the rule does not load - and if a loader ever resolved the name leniently,
        // which key it found must not depend on the load (hash order)
        if self.r.chance(1, 8) {
            let names = *self.r.pick(&[["selection", "SELECTION", "Selection"], ["ab", "AB", "aB"], ["Proc", "proc", "PROC"]]);
            self.own_docs = Some(vec![obj(vec![("f".into(), s_node("x"))]), obj(vec![("f".into(), s_node("y"))]), obj(vec![])]);
            return json!({"_undef":true,"cond":{"t":"id","n":cps(names[2])},
                          "ids":[[cps(names[0]),{"t":"map","es":[{"m":"none","c":0,"f":cps("f"),"v":pat("exact", "x")}]}],
                                 [cps(names[1]),{"t":"map","es":[{"m":"none","c":0,"f":cps("f"),"v":pat("exact", "y")}]}]]});
        }
        // 5: a rule that does not load because a key / the condition holds a malformed number token (`10.0.0.1`, `1.2.3`):
        // whatever the tokeniser had in hand when it gave up must not reach the next rule loaded on that thread
        if self.r.chance(1, 8) {
            let bad = *self.r.pick(&["10.0.0.1", "1.2.3", "7..", "f 1.2.3", "1.2.3 f"][..]);
            self.own_docs = Some(vec![obj(vec![("f".into(), s_node("x"))]), obj(vec![])]);
            return json!({"_undef":true,"cond":{"t":"id","n":cps("A")},
                          "ids":[[cps("A"),{"t":"map","es":[{"m":"none","c":0,"f":cps(bad),"v":pat("exact", "x")}]}]]});
        }
        // 3: regexes over LONG values (600+ characters) with different outcomes, matched from several
        // threads at once in different orders
        if self.r.chance(1, 7) {
            let c = |ch: char| json!({"t":"c","c":ch as u32});
            let v1 = json!({"t":"pat","k":"regex","ic":false,"a":[c('a'), c('b'), json!({"t":"star"})]});
            let v2 = json!({"t":"pat","k":"regex","ic":false,"a":[json!({"t":"bol"}), c('q'), c('a')]});
            let v = if self.r.chance(1, 2) { v1 } else { json!({"t":"list","vs":[v1, v2]}) };
            let pad = |ch: &str, n: usize, tail: &str| format!("{}{}", ch.repeat(n), tail);
            self.own_docs = Some(vec![obj(vec![("f".into(), s_node(&pad("q", 600, "ab")))]), obj(vec![("f".into(), s_node(&pad("q", 600, "")))]),
                                      obj(vec![("f".into(), s_node(&pad("x", 560, "ba")))]), obj(vec![("f".into(), s_node(&pad("y", 640, "abz")))]),
                                      obj(vec![("f".into(), s_node(&pad("z", 700, "a")))]), obj(vec![("f".into(), s_node(&pad("w", 520, "b ab")))])]);
            return json!({"cond":{"t":"id","n":cps("A")},"ids":[[cps("A"),{"t":"map","es":[{"m":"none","c":0,"f":cps("f"),"v":v}]}]]});
        }
        // 2: one or two regexes (the next case is the same rule with every case flag flipped: the same
        // regex TEXT compiled with the other flag in the same process)
        if self.r.chance(1, 3) {
            let c = |ch: char| json!({"t":"c","c":ch as u32});
            let bodies: Vec<Vec<J>> = vec![vec![c('a'), c('b'), json!({"t":"star"})], vec![json!({"t":"bol"}), c('A'), c('b')], vec![c('b'), json!({"t":"dot"}), c('a')]];
            let n = 1 + self.r.below(2);
            let vs: Vec<J> = (0..n).map(|i| json!({"t":"pat","k":"regex","ic":false,"a":bodies[(i + self.r.below(3)) % 3].clone()})).collect();
            let v = if n == 1 { vs[0].clone() } else { json!({"t":"list","vs":vs}) };
            let hay = ["abx", "ABx", "Abq", "aB", "bxa", "BXA", "q"];
            self.own_docs = Some((0..5).map(|_| obj(vec![("f".into(), s_node(*self.r.pick(&hay)))])).collect());
            return json!({"cond":{"t":"id","n":cps("A")},"ids":[[cps("A"),{"t":"map","es":[{"m":"none","c":0,"f":cps("f"),"v":v}]}]]});
        }
        if self.r.chance(1, 2) {
            let n = 2 + self.r.below(2);
            let vs: Vec<J> = (0..n).map(|i| pat("contains", ["ab", "ba", "bb"][i])).collect();
            let (m, c) = if self.r.chance(1, 2) { ("all", 0) } else { ("of", 1 + self.r.below(n) as u64) };
            let cond = if self.r.chance(1, 3) { json!({"t":"not","e":{"t":"id","n":cps("A")}}) } else { json!({"t":"id","n":cps("A")}) };
            let vals = [i_node("7"), json!({"t":"B","b":true}), json!({"t":"N"}), obj(vec![("x".into(), i_node("1"))]), s_node("abba"), s_node("q"), f_node("1.5")];
            self.own_docs = Some((0..5).map(|_| obj(vec![("f".into(), self.r.pick(&vals).clone())])).collect());
            json!({"cond":cond,"ids":[[cps("A"),{"t":"map","es":[{"m":m,"c":c,"f":cps("f"),"v":{"t":"list","vs":vs}}]}]]})
        } else {
            let nf = 6 + self.r.below(3);
            let ms: Vec<J> = (0..nf).map(|i| {
                let vs: Vec<J> = (0..3).map(|j| pat("contains", &format!("w{}{}", i, j))).collect();
                json!({"t":"map","es":[{"m":"none","c":0,"f":cps(&format!("f{}", i)),"v":{"t":"list","vs":vs}}]})
            }).collect();
            self.own_docs = Some((0..3).map(|_| { let i = self.r.below(nf); obj(vec![(format!("f{}", i), s_node(&format!("xw{}1y", i)))]) }).collect());
            json!({"cond":{"t":"id","n":cps("A")},"ids":[[cps("A"),{"t":"seq","ms":ms}]]})
        }
    }

    /// C16 shapes: a sequence of mappings that the matrix optimisation turns into a table (field g
    /// recurs) in which one cell is a NESTED block whose inner key has the name of the block's own key
    /// (`user: {user: ..}`) - and documents in which a field under a text predicate holds an OBJECT
    /// (with members such as `#text`, `value`, `0` that no predicate names)
    pub fn nested_cell_source(&mut self) -> J {
        let pat = |k: &str, a: &str| json!({"t":"pat","k":k,"ic":false,"a":cps(a)});
        let ent = |f: &str, v: J| json!({"m":"none","c":0,"f":cps(f),"v":v});
        let inner = if self.r.chance(1, 2) { "user" } else { "name" };
        let rows = vec![
            json!({"t":"map","es":[ent("user", json!({"t":"map","es":[ent(inner, pat("prefix", "adm"))]})), ent("g", pat("exact", "x"))]}),
            json!({"t":"map","es":[ent("g", pat("exact", "y")), ent("h", pat("prefix", "z"))]}),
            json!({"t":"map","es":[ent("data", pat("prefix", "pow")), ent("g", pat("exact", "w"))]}),
        ];
        let objtext = |t: &str| obj(vec![("#text".into(), s_node(t)), ("value".into(), s_node(t)), ("0".into(), s_node(t))]);
        let docs: Vec<J> = (0..6).map(|_| {
            let mut kv = vec![];
            match self.r.below(4) {
                0 => kv.push(("user".to_string(), obj(vec![(inner.to_string(), s_node("admin"))]))),
                1 => kv.push(("user".to_string(), obj(vec![("other".to_string(), s_node("admin"))]))),
                2 => kv.push(("user".to_string(), s_node("admin"))),
                _ => {}
            }
            kv.push(("g".to_string(), s_node(*self.r.pick(&["x", "y", "w", "q"]))));
            match self.r.below(3) { 0 => kv.push(("h".to_string(), s_node("zz"))), 1 => kv.push(("h".to_string(), objtext("zz"))), _ => {} }
            match self.r.below(3) { 0 => kv.push(("data".to_string(), s_node("power"))), 1 => kv.push(("data".to_string(), objtext("power"))), _ => {} }
            obj(kv)
        }).collect();
        self.own_docs = Some(docs);
        let cond = if !self.positive && self.r.chance(1, 4) { json!({"t":"not","e":{"t":"id","n":cps("A")}}) } else { json!({"t":"id","n":cps("A")}) };
        json!({"cond":cond,"ids":[[cps("A"),{"t":"seq","ms":rows}]]})
    }

    /// a list that holds the wildcard `*` among members of other kinds (numbers, booleans, a nested
    /// mapping, further patterns), plain or under all(): `*` matches texts only, so the members
    /// written after it still count
    pub fn wild_list_source(&mut self) -> J {
        let mut vs = vec![json!({"t":"pat","k":"any","ic":false,"a":[]})];
        let extra = [json!({"t":"num","n":int_node("5")}), json!({"t":"bool","b":true}), json!({"t":"pat","k":"prefix","ic":false,"a":cps("a")}),
                     json!({"t":"map","es":[{"m":"none","c":0,"f":cps("x"),"v":{"t":"num","n":int_node("1")}}]}), json!({"t":"null"})];
        let n = 1 + self.r.below(3);
        for _ in 0..n {
            let e = self.r.pick(&extra).clone();
            if !vs.contains(&e) { vs.push(e); }
        }
        let pos = self.r.below(vs.len());
        vs.swap(0, pos);
        let same_kind = vs.iter().all(|v| v["t"] == "pat");
        let m = if same_kind && self.r.chance(1, 2) { "all" } else { "none" };
        let vals = [i_node("5"), json!({"t":"B","b":true}), s_node("abx"), s_node("b"), i_node("7"), json!({"t":"N"}),
                    obj(vec![("x".into(), i_node("1"))]), json!({"t":"B","b":false})];
        self.own_docs = Some((0..6).map(|_| obj(vec![("k".into(), self.r.pick(&vals).clone())])).collect());
        json!({"cond":{"t":"id","n":cps("A")},"ids":[[cps("A"),{"t":"map","es":[{"m":m,"c":0,"f":cps("k"),"v":{"t":"list","vs":vs}}]}]]})
    }

    /// three to five identifiers or-ed together, each one string predicate on the SAME field, drawn
    /// from a pool of two words and three kinds: the optimiser merges them into one batch in which
    /// needles repeat
    /// SEVERAL PREDICATES ON ONE FIELD written as separate entries (a sequence of one-key mappings, or-ed
    /// identifiers, and-ed identifiers with a neighbour on another field), each a single pattern or a short
    /// list, kinds mixed (contains / prefix / suffix / exact) over a small word pool.  The documents bring,
    /// per member, a value that only a pattern of that kind on that word matches, values holding an anchored
    /// word away from its anchor, and ARRAYS whose elements satisfy different members separately - what the
    /// optimiser's same-field merging (shake) must keep apart: order of kinds, automata built by the parser,
    /// any-element versus one-element semantics.
    pub fn same_field_source(&mut self) -> J {
        let words = ["cmd", "ps", "ws", "run"];
        let kinds = ["contains", "prefix", "suffix", "exact"];
        let n = 3 + self.r.below(3);
        let ic = self.r.chance(1, 5);
        let mut entries: Vec<J> = vec![];
        let mut pats: Vec<(&str, &str)> = vec![];
        for _ in 0..n {
            let m = if self.r.chance(1, 3) { 2 + self.r.below(2) } else { 1 };
            let mut vs = vec![];
            for _ in 0..m {
                let k = *self.r.pick(&kinds[..]);
                let w = *self.r.pick(&words[..]);
                pats.push((k, w));
                vs.push(json!({"t":"pat","k":k,"ic":ic,"a":cps(w)}));
            }
            entries.push(if m == 1 { vs.pop().unwrap() } else { json!({"t":"list","vs":vs}) });
        }
        // quantified variants (C08): the entries under all(A) / of(A, n), or ONE key-level list under all(f) / of(f, n);
        // an entry may repeat an earlier one, or be its case-flag twin - the count is over the entries as written
        if self.samefq {
            for i in 1..entries.len() {
                if self.r.chance(1, 4) { entries[i] = entries[self.r.below(i)].clone(); }
            }
            let cnt = self.r.below(4);
            let quant_all = self.r.chance(1, 3);
            let mut docs = vec![];
            let s = |x: &str| json!({"t":"S","s":cps(x)});
            let one = |fv: J| json!({"t":"O","kv":[[cps("f"), fv]]});
            let val = |k: &str, w: &str| -> String {
                match k { "contains" => format!("zz {} zz", w), "prefix" => format!("{} zz", w), "suffix" => format!("zz {}", w), _ => w.to_string() }
            };
            let all_words = "cmd ps ws run cmd";
            docs.push(one(s(all_words)));
            docs.push(one(json!({"t":"A","vs":[s(all_words)]})));
            docs.push(one(json!({"t":"A","vs":[s("zz"), s(all_words)]})));
            docs.push(one(json!({"t":"A","vs":pats.iter().take(5).map(|(k, w)| s(&val(k, w))).collect::<Vec<J>>()})));
            for (i, (k, w)) in pats.iter().enumerate() { if i < 4 { docs.push(one(s(&val(k, w)))); } }
            if pats.len() >= 2 { docs.push(one(json!({"t":"A","vs":[s(&val(pats[0].0, pats[0].1)), s(&val(pats[1].0, pats[1].1))]}))); }
            docs.push(one(s("zzzz")));
            docs.push(json!({"t":"O","kv":[]}));
            self.own_docs = Some(docs);
            if self.r.chance(1, 2) {
                // key-level list: every member one pattern
                let vs: Vec<J> = pats.iter().take(6).map(|(k, w)| json!({"t":"pat","k":k,"ic":ic,"a":cps(w)})).collect();
                let e = if quant_all { json!({"m":"all","c":0,"f":cps("f"),"v":{"t":"list","vs":vs}}) }
                        else { json!({"m":"of","c":cnt,"f":cps("f"),"v":{"t":"list","vs":vs}}) };
                return json!({"cond":{"t":"id","n":cps("A")},"ids":[[cps("A"),{"t":"map","es":[e]}]]});
            }
            let ms: Vec<J> = entries.iter().map(|v| json!({"t":"map","es":[{"m":"none","c":0,"f":cps("f"),"v":v}]})).collect();
            let cond = if quant_all { json!({"t":"all","n":cps("A")}) } else { json!({"t":"of","n":cps("A"),"c":cnt}) };
            return json!({"cond":cond,"ids":[[cps("A"),{"t":"seq","ms":ms}]]});
        }
        let form = self.r.below(4);
        let ent = |f: &str, v: &J| json!({"m":"none","c":0,"f":cps(f),"v":v});
        let mut ids = vec![];
        let cond;
        if form == 0 {
            let ms: Vec<J> = entries.iter().map(|v| json!({"t":"map","es":[ent("f", v)]})).collect();
            ids.push(json!([cps("A"), {"t":"seq","ms":ms}]));
            cond = json!({"t":"id","n":cps("A")});
        } else {
            let other = json!({"t":"pat","k":"exact","ic":false,"a":cps("x")});
            let at = self.r.below(n + 1);
            let mut names = vec![];
            for (i, v) in entries.iter().enumerate() {
                if form >= 2 && i == at {
                    names.push(IDENTS[n].to_string());
                    ids.push(json!([cps(IDENTS[n]), {"t":"map","es":[ent("g", &other)]}]));
                }
                names.push(IDENTS[i].to_string());
                ids.push(json!([cps(IDENTS[i]), {"t":"map","es":[ent("f", v)]}]));
            }
            if form >= 2 && at == n {
                names.push(IDENTS[n].to_string());
                ids.push(json!([cps(IDENTS[n]), {"t":"map","es":[ent("g", &other)]}]));
            }
            let op = if form == 1 || form == 2 { "or" } else { "and" };
            cond = names.iter().map(|x| json!({"t":"id","n":cps(x)})).reduce(|l, r| json!({"t":op,"l":l,"r":r})).unwrap();
        }
        let val = |k: &str, w: &str| -> String {
            match k { "contains" => format!("zz {} zz", w), "prefix" => format!("{} zz", w), "suffix" => format!("zz {}", w), _ => w.to_string() }
        };
        let s = |x: &str| json!({"t":"S","s":cps(x)});
        let mk = |fv: J, g: bool| { let mut kv = vec![json!([cps("f"), fv])]; if g { kv.push(json!([cps("g"), {"t":"S","s":cps("x")}])); } json!({"t":"O","kv":kv}) };
        let mut docs = vec![];
        let gx = form >= 2;
        for (i, (k, w)) in pats.iter().enumerate() {
            if i < 6 { docs.push(mk(s(&val(k, w)), gx || self.r.chance(1, 2))); }
        }
        // an anchored word AWAY from its anchor (a batch must keep each member's kind)
        for (i, (k, w)) in pats.iter().enumerate() {
            if i < 4 && *k != "contains" {
                let v = match *k { "prefix" => format!("zz {}", w), "suffix" => format!("{} zz", w), _ => format!("zz {} zz", w) };
                docs.push(mk(s(&v), true));
            }
        }
        // arrays: two members' values in separate elements; all members' values; one element holding two words
        if pats.len() >= 2 {
            let (a, b) = (pats[0], pats[pats.len() - 1]);
            docs.push(mk(json!({"t":"A","vs":[s(&val(a.0, a.1)), s(&val(b.0, b.1))]}), true));
            docs.push(mk(json!({"t":"A","vs":pats.iter().take(5).map(|(k, w)| s(&val(k, w))).collect::<Vec<J>>()}), true));
            docs.push(mk(s(&format!("{} {}", a.1, b.1)), true));
        }
        docs.push(mk(s("zzzz"), true));
        docs.push(json!({"t":"O","kv":[[cps("g"), {"t":"S","s":cps("x")}]]}));
        self.own_docs = Some(docs);
        json!({"cond":cond,"ids":ids})
    }

    pub fn repeat_needle_source(&mut self) -> J {
        let n = 3 + self.r.below(3);
        let words = ["ab", "Ba"];
        let ic = self.r.chance(1, 3);
        let mut ids = vec![];
        for i in 0..n {
            let k = *self.r.pick(&["contains", "contains", "exact", "suffix"]);
            let p = json!({"t":"pat","k":k,"ic":ic,"a":cps(*self.r.pick(&words))});
            ids.push(json!([cps(IDENTS[i]), {"t":"map","es":[{"m":"none","c":0,"f":cps("f"),"v":p}]}]));
        }
        let cond = (0..n).map(|i| json!({"t":"id","n":cps(IDENTS[i])})).reduce(|l, r| json!({"t":"or","l":l,"r":r})).unwrap();
        json!({"cond":cond,"ids":ids})
    }

    /// ONE nested block with two or three keys (a conjunction evaluated against the nested object),
    /// plain or negated; optionally two operands read the same member (`x` and `int(x)`).  Documents
    /// hold the object with any subset of the members: the verdict must not depend on how many
    /// members the object has, only on the ones the block names.
    pub fn nested_multi_source(&mut self) -> J {
        let mut es = vec![];
        if self.r.chance(1, 3) {
            let lo = self.r.below(3);
            es.push(json!({"m":"none","c":0,"f":cps("x"),"v":{"t":"cmp","op":"ge","n":int_node(&format!("{}", lo))}}));
            es.push(json!({"m":"int","c":0,"f":cps("x"),"v":{"t":"cmp","op":"lt","n":int_node(&format!("{}", lo + 2))}}));
        } else {
            es.push(json!({"m":"none","c":0,"f":cps("x"),"v":self.pattern(false)}));
        }
        es.push(json!({"m":"none","c":0,"f":cps("y"),"v":self.pattern(false)}));
        if self.r.chance(1, 3) {
            es.push(json!({"m":"none","c":0,"f":cps("z"),"v":{"t":"pat","k":"any","ic":false,"a":[]}}));
        }
        let mut top = vec![json!({"m":"none","c":0,"f":cps("p"),"v":{"t":"map","es":es}})];
        // next to the block, sometimes a predicate `dotted.key: null` (the leaf is often absent)
        if self.r.chance(1, 2) {
            top.push(json!({"m":"none","c":0,"f":cps(*self.r.pick(&["s.t", "s.u", "p.w"])),"v":{"t":"null"}}));
        }
        let ids = vec![json!([cps("A"), {"t":"map","es":top}])];
        let cond = if !self.positive && self.r.chance(1, 2) { json!({"t":"not","e":{"t":"id","n":cps("A")}}) } else { json!({"t":"id","n":cps("A")}) };
        json!({"cond":cond,"ids":ids})
    }

    /// nested mappings 2..5 levels deep (`p: {q: {r: {s: v}}}`), two or three of them sharing a
    /// prefix of the path, combined by and / or: depth of the solver's recursion through Nested
    pub fn deep_nested_source(&mut self) -> J {
        let segs = ["p", "q", "r", "s", "t"];
        let nid = 2 + self.r.below(2);
        let mut ids = vec![];
        let mut names = vec![];
        for i in 0..nid {
            let depth = 2 + self.r.below(4);
            let mut v = if self.r.chance(1, 3) { json!({"t":"pat","k":"any","ic":false,"a":[]}) } else { self.pattern(false) };
            let leaf = *self.r.pick(&["x", "y"]);
            let mut e = json!({"t":"map","es":[{"m":"none","c":0,"f":cps(leaf),"v":v}]});
            for d in (0..depth).rev() {
                v = e;
                e = json!({"t":"map","es":[{"m":"none","c":0,"f":cps(segs[d]),"v":v}]});
            }
            let name = IDENTS[i].to_string();
            ids.push(json!([cps(&name), e]));
            names.push(name);
        }
        let mut cond = json!({"t":"id","n":cps(&names[0])});
        for n in names.iter().skip(1) {
            let op = if self.r.chance(1, 2) { "and" } else { "or" };
            cond = json!({"t":op,"l":cond,"r":{"t":"id","n":cps(n)}});
        }
        if !self.positive && self.r.chance(1, 4) {
            cond = json!({"t":"not","e":{"t":"par","e":cond}});
        }
        json!({"cond":cond,"ids":ids})
    }

    /// identifiers that are nested blocks on ONE field with different inner keys (plus a plain one),
    /// combined by and / or chains: shake merges such blocks; documents hold the field as an object
    /// or as an array of objects each satisfying some of the blocks
    pub fn nested_merge_source(&mut self) -> J {
        let inner = ["x", "y", "z"];
        let nid = 2 + self.r.below(2);
        let mut ids = vec![];
        let mut names = vec![];
        for i in 0..nid {
            let name = IDENTS[i].to_string();
            let k = inner[i % 3];
            let v = match self.r.below(6) {
                0 => self.pattern(false),
                1 => json!({"t":"pat","k":"any","ic":false,"a":[]}),
                _ => json!({"t":"pat","k":"exact","ic":false,"a":cps("v")}),
            };
            let mut es = vec![json!({"m":"none","c":0,"f":cps(k),"v":v})];
            if self.r.chance(1, 4) {
                es.push(json!({"m":"none","c":0,"f":cps(inner[(i + 1) % 3]),"v":{"t":"pat","k":"any","ic":false,"a":[]}}));
            }
            ids.push(json!([cps(&name), {"t":"map","es":[{"m":"none","c":0,"f":cps("p"),"v":{"t":"map","es":es}}]}]));
            names.push(name);
        }
        let plain = IDENTS[nid].to_string();
        ids.push(json!([cps(&plain), {"t":"map","es":[{"m":"none","c":0,"f":cps("q"),"v":{"t":"pat","k":"exact","ic":false,"a":cps("v")}}]}]));
        names.push(plain);
        let op = if self.r.chance(2, 3) { "and" } else { "or" };
        let mut order: Vec<String> = names.clone();
        for i in (1..order.len()).rev() {
            let j = self.r.below(i + 1);
            order.swap(i, j);
        }
        let mut cond = order.iter().map(|n| json!({"t":"id","n":cps(n)})).reduce(|l, r| json!({"t":op,"l":l,"r":r})).unwrap();
        if !self.positive && self.r.chance(1, 4) {
            cond = json!({"t":"not","e":{"t":"par","e":cond}});
        }
        json!({"cond":cond,"ids":ids})
    }

    pub fn nested_merge_doc(&mut self) -> J {
        let inner = ["x", "y", "z"];
        let mut elem = |g: &mut G| {
            let mut kv = vec![];
            for k in inner {
                match g.r.below(4) {
                    0 | 1 => kv.push((k.to_string(), s_node("v"))),
                    2 => kv.push((k.to_string(), s_node("w"))),
                    _ => {}
                }
            }
            obj(kv)
        };
        let p = match self.r.below(5) {
            0 => elem(self),
            1 => s_node("v"),
            _ => {
                let n = 1 + self.r.below(3);
                let mut vs: Vec<J> = (0..n).map(|_| elem(self)).collect();
                if self.r.chance(1, 5) {
                    vs.push(s_node("v"));
                }
                json!({"t":"A","vs":vs})
            }
        };
        let mut kv = vec![("p".to_string(), p)];
        if self.r.chance(3, 4) {
            kv.push(("q".into(), s_node(if self.r.chance(2, 3) { "v" } else { "w" })));
        }
        obj(kv)
    }

    pub fn source(&mut self, depth: usize) -> J {
        let nid = 1 + self.r.below(4);
        let mut names: Vec<String> = vec![];
        while names.len() < nid {
            let n = self.r.pick(IDENTS).to_string();
            if !names.contains(&n) {
                names.push(n);
            }
        }
        let mut ids = vec![];
        let mut quantifiable = vec![];
        for n in &names {
            let b = self.body(2);
            if !(ident_list_batch(&b) || seq_quant_trigger(&b)) || self.r.chance(self.kf_pct, 100) {
                quantifiable.push(n.clone());
            }
            ids.push(json!([cps(n), b]));
        }
        let cond = self.cond(&names, &quantifiable, depth);
        json!({"cond":cond,"ids":ids})
    }

    // ------------------------------------------------------------------ documents
    pub fn doc_value(&mut self, hints: &[J], depth: usize) -> J {
        let roll = self.r.below(100);
        if roll < 45 {
            // a string, preferably related to a pattern of the rule
            let pats: Vec<&J> = hints.iter().filter(|h| h["t"] == "pat").collect();
            if !pats.is_empty() && self.r.chance(4, 5) {
                let p = (*self.r.pick(&pats)).clone();
                return s_node(&self.near(&p));
            }
            let nums: Vec<&J> = hints.iter().filter(|h| h["t"] == "num" || h["t"] == "cmp").collect();
            if !nums.is_empty() && self.r.chance(1, 2) {
                let n = (*self.r.pick(&nums)).clone();
                return s_node(&num_text(&n["n"]).unwrap_or_default());
            }
            return s_node(&self.word(4, false));
        }
        if roll < 65 {
            let nums: Vec<&J> = hints.iter().filter(|h| h["t"] == "num" || h["t"] == "cmp").collect();
            if !nums.is_empty() && self.r.chance(3, 4) {
                let n = (*self.r.pick(&nums)).clone();
                let t = num_text(&n["n"]).unwrap_or_default();
                if n["n"]["k"] == "i" {
                    return self.int_near(&t);
                }
                return f_node(&t);
            }
            return match self.r.below(4) {
                0 => f_node(&self.flt_text()),
                1 => i_node(&self.uint_text()),
                _ => i_node(&self.int_text()),
            };
        }
        if roll < 72 {
            return json!({"t":"B","b":self.r.chance(1, 2)});
        }
        if roll < 76 {
            return json!({"t":"N"});
        }
        if roll < 88 && depth > 0 {
            let n = self.r.below(4);
            let vs: Vec<J> = (0..n).map(|_| self.doc_value(hints, depth - 1)).collect();
            return json!({"t":"A","vs":vs});
        }
        if depth > 0 {
            let n = self.r.below(3);
            let mut kv = vec![];
            for _ in 0..n {
                let k = (*self.r.pick(&["f", "g", "n", "t", "u"])).to_string();
                if kv.iter().any(|(x, _): &(String, J)| *x == k) {
                    continue;
                }
                kv.push((k, self.doc_value(hints, depth - 1)));
            }
            return obj(kv);
        }
        s_node(&self.word(3, true))
    }

    fn int_near(&mut self, t: &str) -> J {
        match self.r.below(5) {
            0 => i_node(t),
            1 => {
                // +1 / -1 on the decimal text via i128
                let v: i128 = t.parse().unwrap_or(0);
                let w = v + if self.r.chance(1, 2) { 1 } else { -1 };
                if w >= i64::MIN as i128 && w <= u64::MAX as i128 {
                    i_node(&w.to_string())
                } else {
                    i_node(t)
                }
            }
            // floats only where the decimal text is exactly representable (|t| < 2^52)
            2 if t.trim_start_matches('-').len() <= 15 => f_node(&format!("{}.5", t)),
            3 if t.trim_start_matches('-').len() <= 15 => f_node(&format!("{}.0", t)),
            _ => i_node(t),
        }
    }

    /// a document for `src`: every field the rule names gets a value related to the rule's own
    /// constants (or is left out), plus unrelated fields
    /// a value of the kind the rule's own predicates on this field expect (so nothing is missing
    /// or ill-kinded): string for patterns, number of the same kind for numbers, ...
    pub fn kind_value(&mut self, hints: &[J]) -> J {
        if hints.is_empty() {
            return s_node(&self.word(3, true));
        }
        let h = self.r.pick(hints).clone();
        match h["t"].as_str().unwrap_or("") {
            "pat" => s_node(&self.near(&h)),
            "num" | "cmp" => {
                let t = num_text(&h["n"]).unwrap_or_default();
                if h["n"]["k"] == "i" {
                    match self.r.below(3) {
                        0 => i_node(&t),
                        _ => {
                            let v: i128 = t.parse().unwrap_or(0);
                            let w = v + [1i128, -1, 2][self.r.below(3)];
                            if w >= i64::MIN as i128 && w <= i64::MAX as i128 { i_node(&w.to_string()) } else { i_node(&t) }
                        }
                    }
                } else if self.r.chance(1, 2) {
                    f_node(&t)
                } else {
                    f_node(&self.flt_text())
                }
            }
            "bool" => json!({"t":"B","b":self.r.chance(1, 2)}),
            "null" => {
                if self.r.chance(1, 2) { json!({"t":"N"}) } else { s_node("x") }
            }
            _ => s_node(&self.word(3, true)),
        }
    }

    /// a document in which every field the rule names is present with a suitable kind
    pub fn doc_complete(&mut self, src: &J) -> J {
        let mut hints: std::collections::BTreeMap<String, Vec<J>> = Default::default();
        for pair in src["ids"].as_array().unwrap_or(&vec![]) {
            collect_hints(&pair[1], "", &mut hints);
        }
        collect_cond_fields(&src["cond"], &mut hints);
        let mut root: Vec<(String, J)> = vec![];
        // longest paths first so that objects are created before a scalar could take their place
        let mut paths: Vec<&String> = hints.keys().collect();
        paths.sort_by_key(|p| std::cmp::Reverse(p.matches('.').count()));
        for path in paths {
            let v = self.kind_value(&hints[path]);
            insert_path(&mut root, path, v);
        }
        obj_from(root)
    }

    pub fn doc_for(&mut self, src: &J) -> J {
        let mut hints: std::collections::BTreeMap<String, Vec<J>> = Default::default();
        for pair in src["ids"].as_array().unwrap_or(&vec![]) {
            collect_hints(&pair[1], "", &mut hints);
        }
        collect_cond_fields(&src["cond"], &mut hints);
        let mut root: Vec<(String, J)> = vec![];
        for (path, hs) in hints.iter() {
            if self.r.chance(1, 4) {
                continue; // absent
            }
            let v = self.doc_value(hs, 2);
            insert_path(&mut root, path, v);
        }
        if self.r.chance(1, 3) {
            insert_path(&mut root, "zz", s_node("unrelated"));
        }
        let mut d = obj_from(root);
        // fields tested by a nested mapping: sometimes an ARRAY of variants of the object (an
        // element lacking a key before the one that has it, non-object elements in between)
        let nested: Vec<String> = hints.iter().filter(|(_, hs)| hs.is_empty()).map(|(p, _)| p.clone()).collect();
        for p in nested {
            if self.r.chance(1, 3) {
                arrayify(self, &mut d, &p);
            }
        }
        d
    }
}

fn arrayify(g: &mut G, doc: &mut J, path: &str) {
    let (head, rest) = match path.split_once('.') {
        Some((h, r)) => (h, Some(r)),
        None => (path, None),
    };
    let kv = match doc.get_mut("kv").and_then(|k| k.as_array_mut()) {
        Some(kv) => kv,
        None => return,
    };
    for p in kv.iter_mut() {
        if str_of(&p[0]).map(|k| k == head).unwrap_or(false) {
            match rest {
                Some(r) => arrayify(g, &mut p[1], r),
                None => {
                    if p[1]["t"] != "O" {
                        return;
                    }
                    let full = p[1].clone();
                    let mut elems = vec![];
                    let n = 1 + g.r.below(3);
                    for _ in 0..n {
                        let mut e = full.clone();
                        if let Some(ekv) = e.get_mut("kv").and_then(|k| k.as_array_mut()) {
                            if !ekv.is_empty() && g.r.chance(1, 2) {
                                let i = g.r.below(ekv.len());
                                ekv.remove(i);
                            }
                        }
                        elems.push(e);
                    }
                    if g.r.chance(1, 2) {
                        elems.push(full.clone());
                    }
                    if g.r.chance(1, 4) {
                        let pos = g.r.below(elems.len() + 1);
                        elems.insert(pos, s_node("x"));
                    }
                    p[1] = json!({"t":"A","vs":elems});
                }
            }
            return;
        }
    }
}

fn obj_from(kv: Vec<(String, J)>) -> J {
    obj(kv)
}

/// insert value at dotted path (plain segments only), creating objects; an existing non-object
/// at an intermediate step is left alone (the path then simply does not resolve)
fn insert_path(root: &mut Vec<(String, J)>, path: &str, v: J) {
    let (head, rest) = match path.split_once('.') {
        Some((h, r)) => (h, Some(r)),
        None => (path, None),
    };
    // an indexed segment name[i]: the member is an array that holds the value at position i; when
    // the value is itself an array marked "short" the array ends just before i (index out of range)
    if head.ends_with(']') && head.contains('[') {
        let p = head.find('[').unwrap();
        let name = &head[..p];
        let idx: usize = head[p + 1..head.len() - 1].parse().unwrap_or(0);
        if root.iter().any(|(k, _)| k == name) {
            return;
        }
        let inner = match rest {
            None => v,
            Some(r) => {
                let mut kv = vec![];
                insert_path(&mut kv, r, v);
                obj(kv)
            }
        };
        let short = inner["t"] == "S" && str_of(&inner["s"]).map(|t| t.len() % 4 == 3).unwrap_or(false);
        let mut elems: Vec<J> = (0..idx).map(|i| s_node(&format!("pad{}", i))).collect();
        if !short {
            elems.push(inner);
        }
        root.push((name.to_string(), json!({"t":"A","vs":elems})));
        return;
    }
    match rest {
        None => {
            if !root.iter().any(|(k, _)| k == head) {
                root.push((head.to_string(), v));
            }
        }
        Some(r) => {
            if let Some((_, existing)) = root.iter_mut().find(|(k, _)| k == head) {
                if existing["t"] == "O" {
                    let mut inner: Vec<(String, J)> = existing["kv"]
                        .as_array()
                        .unwrap()
                        .iter()
                        .map(|p| (str_of(&p[0]).unwrap(), p[1].clone()))
                        .collect();
                    insert_path(&mut inner, r, v);
                    *existing = obj(inner);
                }
            } else {
                let mut inner = vec![];
                insert_path(&mut inner, r, v);
                root.push((head.to_string(), obj(inner)));
            }
        }
    }
}

fn collect_hints(b: &J, prefix: &str, out: &mut std::collections::BTreeMap<String, Vec<J>>) {
    match b["t"].as_str().unwrap_or("") {
        "seq" => {
            for m in b["ms"].as_array().unwrap_or(&vec![]) {
                collect_hints(m, prefix, out);
            }
        }
        "map" => {
            for e in b["es"].as_array().unwrap_or(&vec![]) {
                let f = str_of(&e["f"]).unwrap_or_default();
                let path = if prefix.is_empty() { f } else { format!("{}.{}", prefix, f) };
                let v = &e["v"];
                match v["t"].as_str().unwrap_or("") {
                    "map" => {
                        out.entry(path.clone()).or_default();
                        collect_hints(v, &path, out);
                    }
                    "list" => {
                        for x in v["vs"].as_array().unwrap_or(&vec![]) {
                            if x["t"] == "map" {
                                collect_hints(x, &path, out);
                            } else {
                                out.entry(path.clone()).or_default().push(x.clone());
                            }
                        }
                    }
                    _ => out.entry(path).or_default().push(v.clone()),
                }
            }
        }
        _ => {}
    }
}

fn collect_cond_fields(c: &J, out: &mut std::collections::BTreeMap<String, Vec<J>>) {
    match c["t"].as_str().unwrap_or("") {
        "and" | "or" => {
            collect_cond_fields(&c["l"], out);
            collect_cond_fields(&c["r"], out);
        }
        "not" | "par" => collect_cond_fields(&c["e"], out),
        "cmp" => {
            let mut consts = vec![];
            for o in [&c["l"], &c["r"]] {
                let o = if o["t"] == "par" { &o["e"] } else { o };
                if o["t"] == "const" {
                    consts.push(json!({"t":"num","n":o["n"]}));
                }
            }
            for o in [&c["l"], &c["r"]] {
                let o = if o["t"] == "par" { &o["e"] } else { o };
                if o["t"] == "cast" {
                    let f = str_of(&o["f"]).unwrap_or_default();
                    let e = out.entry(f).or_default();
                    e.extend(consts.clone());
                    e.push(json!({"t":"num","n":int_node("1")}));
                }
            }
        }
        _ => {}
    }
}

fn dedup_entries(es: Vec<J>) -> Vec<J> {
    let mut seen = std::collections::HashSet::new();
    let mut out = vec![];
    for e in es {
        let k = crate::render::key_text(&e).unwrap_or_default();
        if seen.insert(k) {
            out.push(e);
        }
    }
    out
}

fn batch_class(v: &J) -> String {
    if v["t"] == "pat" {
        let k = v["k"].as_str().unwrap_or("");
        let ic = v["ic"].as_bool().unwrap_or(false);
        if k == "regex" {
            return format!("re{}", ic);
        }
        if k == "any" || (k == "exact" && v["a"].as_array().map(|a| a.is_empty()).unwrap_or(true)) {
            return "solo".into();
        }
        return format!("aho{}", ic);
    }
    "solo".into()
}

/// keep a quantified string list out of the partial-batch known finding: either every member in
/// one batch, or no batch with two members
fn avoid_partial_batch(vs: Vec<J>) -> Vec<J> {
    let mut counts: std::collections::HashMap<String, usize> = Default::default();
    for v in &vs {
        *counts.entry(batch_class(v)).or_default() += 1;
    }
    let partial = counts.iter().any(|(c, n)| c != "solo" && *n >= 2 && *n < vs.len());
    if !partial {
        return vs;
    }
    // keep only the members of the largest batch
    let best = counts.iter().filter(|(c, _)| *c != "solo").max_by_key(|(_, n)| **n).map(|(c, _)| c.clone()).unwrap();
    vs.into_iter().filter(|v| batch_class(v) == best).collect()
}

/// triggers of the shake_flatten_seq / shake_merge_batch known findings
fn seq_quant_trigger(b: &J) -> bool {
    if b["t"] != "seq" {
        return false;
    }
    let ms = b["ms"].as_array().unwrap();
    if ms.len() == 1 {
        return true;
    }
    let mut keys = std::collections::HashSet::new();
    for m in ms {
        let es = m["es"].as_array().unwrap();
        if es.len() == 1 && es[0]["v"]["t"] == "pat" && batch_class(&es[0]["v"]) != "solo" {
            let k = format!("{}|{}|{}", es[0]["f"], es[0]["m"], batch_class(&es[0]["v"]));
            if !keys.insert(k) {
                return true;
            }
        }
    }
    false
}

/// trigger of the ident_list_batch known finding
fn ident_list_batch(b: &J) -> bool {
    if b["t"] != "map" {
        return false;
    }
    let es = b["es"].as_array().unwrap();
    if es.len() != 1 || es[0]["v"]["t"] != "list" {
        return false;
    }
    let mut counts: std::collections::HashMap<String, usize> = Default::default();
    let under_str = es[0]["m"] == "str";
    for v in es[0]["v"]["vs"].as_array().unwrap() {
        let c = if under_str && (v["t"] == "num" || v["t"] == "bool") { "ahofalse".to_string() } else { batch_class(v) };
        *counts.entry(c).or_default() += 1;
    }
    counts.iter().any(|(c, n)| c != "solo" && *n >= 2)
}

const COND_PIECES: &[&str] = &[
    "A", "B", "C", "A", "B", "and", "or", "not", "and", "or", "not", "(", ")", "(", ")", "all(", "of(", "int(", "flt(",
    "str(", "string(", "not(", ",", "1", "0", "2", "1.5", "==", "<", "<=", ">", ">=", "=", "f", "g",
    "android", "order", "nothing", "allow", "offline", "notable", "orbit", "andA", "Aand", "nota", "ora",
    "not_admin", "or_else", "and_more", "or.x", "all_of", "not#1", "of[0]", "and.or", "int_f", "not.not", "all(not_admin)", "of(or_else, 1)",
    // names that differ from a defined identifier only in letter case: they are NOT defined
    "a", "b", "Android", "ORDER", "all(a)", "of(b, 1)", "Not_admin",
    "OR", "Not", "AND", "All", "OR", "AND",
    // wrappers with nothing inside, brackets in the wrong order
    "int()", "str()", "flt()", "not()", "all()", "of()", "of(,1)", "of(A,)", "string()", "a]b[0]", "args][", "]x[", "f[0]]", "[[0]", "a[0][1]", "a[+1]",
    "-", "-1", ".", "..", "1.2.3", "1.", ".5", "99999999999999999999", "9223372036854775807", "#x", "A[0]", "A.B",
    "_", "all", "of", "int", "all(A)", "of(B, 1)", "of(B,0)", "Z", "all(Z)", "of(Z, 1)", "not(Z)", "int(Z)", "int(f)", "flt(g)", "str(f)", "int(f) == 1", "flt(g) < 1.5",
    "str(f) == str(g)", "int(f) >= int(g)",
];
const COND_ODD: &[&str] = &["é", "É1", "😀", "&", "|", "\t", "\u{b}", "\u{a0}", "²", "٣", "Ａ", "ß", "!", "\"", "'", "%", "{", "}", "~", "\n",
                            // characters that are numeric but not ASCII digits, directly after an ASCII digit
                            "1²", "2٣", "1½", "4２", "7Ⅶ", "of(A, 1²)", "1.٣", "0²"];

/// identifier names of the condition generators: words that begin with keyword letters, and
/// names in which the keyword letters are followed by the OTHER identifier characters (_ . # [ ])
const COND_NAMES: &[&str] = &["A", "B", "C", "android", "order", "nothing", "allow", "offline", "notable", "orbit",
                              "not_admin", "or_else", "and_more", "or.x", "all_of", "not#1", "of[0]", "and.or", "int_f", "not.not",
                              // keywords are lower case only: their case variants are ordinary names
                              "OR", "Not", "AND", "All"];
/// the field an atom identifier tests: `f` + the letters and digits of its name
fn atom_field(n: &str) -> String {
    format!("f{}", n.chars().filter(|c| c.is_ascii_alphanumeric()).collect::<String>())
}
fn atom_ids() -> J {
    let atom = |n: &str| json!([cps(n), {"t":"map","es":[{"m":"none","c":0,"f":cps(&atom_field(n)),"v":{"t":"pat","k":"exact","ic":false,"a":cps("x")}}]}]);
    J::Array(COND_NAMES.iter().map(|n| atom(n)).collect())
}

fn atom_docs(g: &mut G) -> Vec<J> {
    let mut docs = vec![];
    for _ in 0..5 {
        let mut kv = vec![];
        for n in COND_NAMES {
            match g.r.below(3) {
                0 => kv.push((atom_field(n), s_node("x"))),
                1 => kv.push((atom_field(n), s_node("y"))),
                _ => {}
            }
        }
        match g.r.below(4) {
            0 => kv.push(("f".into(), i_node("1"))),
            1 => kv.push(("f".into(), s_node("1"))),
            2 => kv.push(("f".into(), i_node("0"))),
            _ => {}
        }
        match g.r.below(3) {
            0 => kv.push(("g".into(), f_node("1.5"))),
            1 => kv.push(("g".into(), f_node("0.5"))),
            _ => {}
        }
        docs.push(obj(kv));
    }
    docs
}

/// a condition text from pieces; `odd`: include characters outside the specification's model of
/// char::is_alphanumeric (then only totality is judged)
fn cond_soup(g: &mut G, odd: bool) -> String {
    let n = 1 + g.r.below(9);
    let mut s = String::new();
    for i in 0..n {
        let piece = if odd && g.r.chance(1, 4) { *g.r.pick(COND_ODD) } else { *g.r.pick(COND_PIECES) };
        let piece = piece.replace("\\t", "\t").replace("\\n", "\n").replace("\\u{b}", "\u{b}").replace("\\u{a0}", "\u{a0}");
        s.push_str(&piece);
        if i + 1 < n {
            match g.r.below(12) {
                0 | 1 => {}
                2 | 3 => s.push_str("  "),
                // every character the tokeniser treats as whitespace: \t \n \x0b \x0c \r
                4 => s.push(*g.r.pick(&['\t', '\n', '\u{b}', '\u{c}', '\r'])),
                _ => s.push(' '),
            }
        }
    }
    s
}

const PAT_CHARS: &[char] = &['i', '?', '>', '<', '=', '*', '\'', '"', 'a', 'A', '1', '.', '-', ' ', 'b', '0', '+', 'e', '(', '[', '\\', '$', '^', 'é', 'É', '😀'];

fn pat_soup(g: &mut G) -> String {
    // one in four: a NUMERIC pattern around the 64-bit boundaries (the comparison prefixes parse
    // the rest as i64, then as f64), with an optional case prefix, sign and trailing junk
    if g.r.chance(1, 12) {
        // comparisons written exactly AT the ends of the i64 range
        if g.r.chance(1, 3) {
            // regexes whose compiled size is large (counted repetition of a Unicode class) or over the limit
            return (*g.r.pick(&["?^\\w{32}$", "?^\\w{40}$", "?\\w{64}", "?[\\p{L}]{50}", "?(a|b){1000}", "?a{1000}{1000}", "?\\d{100}x", "i?^\\w{32}$", "i?\\w{48}"])).to_string();
        }
        return (*g.r.pick(&[">9223372036854775807", "<-9223372036854775808", ">=9223372036854775807", "<=-9223372036854775808",
                            "i>9223372036854775807", "i<-9223372036854775808", "=9223372036854775808", ">9223372036854775806",
                            "<-9223372036854775807", ">-9223372036854775808", "<9223372036854775807", "=-9223372036854775808"])).to_string();
    }
    if g.r.chance(1, 4) {
        let pre = *g.r.pick(&["", "", "i", ">", ">=", "<", "<=", "=", "i>", "i<=", "?", "> ", ">-"]);
        let sign = *g.r.pick(&["", "", "-", "+"]);
        let num = *g.r.pick(&["9223372036854775807", "9223372036854775808", "9223372036854775806", "18446744073709551615",
                               "18446744073709551616", "0", "00", "1", "9223372036854775807.0", "9223372036854775807.5", "1e400", "1e-400",
                               "1.7976931348623157e308", "1.7976931348623159e308", "4.9e-324", ".5", "5.", "1_000", "0x10", "0x8000000000000000", "0xFFFFFFFFFFFFFFFF", "0b1", "0o7", "NaN", "nan", "inf",
                               "infinity", "1e", "e1", "1.5.5", "99999999999999999999999999999999999999999"]);
        let post = *g.r.pick(&["", "", "", " ", "a", "*", ".", "-"]);
        return format!("{}{}{}{}", pre, sign, num, post);
    }
    let n = g.r.below(7);
    (0..n).map(|_| *g.r.pick(PAT_CHARS)).collect()
}

fn yaml_shape(g: &mut G, depth: usize) -> J {
    match g.r.below(if depth == 0 { 7 } else { 10 }) {
        0 => json!({"t":"N"}),
        1 => json!({"t":"B","b":g.r.chance(1, 2)}),
        2 => i_node(&g.int_text()),
        3 => i_node(&g.uint_text()),
        4 => match g.r.below(4) {
            0 => json!({"t":"F","neg":false,"d":[],"fr":[],"sp":"nan"}),
            1 => json!({"t":"F","neg":g.r.chance(1, 2),"d":[],"fr":[],"sp":"inf"}),
            _ => f_node(&g.flt_text()),
        },
        5 => s_node(&pat_soup(g)),
        6 => s_node(&cond_soup(g, true)),
        7 => {
            let n = g.r.below(4);
            json!({"t":"A","vs":(0..n).map(|_| yaml_shape(g, depth - 1)).collect::<Vec<_>>()})
        }
        _ => {
            let n = g.r.below(4);
            let mut kv = vec![];
            for _ in 0..n {
                let k = match g.r.below(8) {
                    0 => "condition".to_string(),
                    1 => pat_soup(g),
                    2 => cond_soup(g, true),
                    3 => (*g.r.pick(&["all(f)", "of(f, 1)", "of(f,0)", "not(f)", "int(f)", "flt(f)", "str(f)", "all(f", "of(f)", "f g", "a.b[0]", "a[0][1]", "[0]", "a[x]", "int(int(f))", "not (f)"])).to_string(),
                    _ => (*g.r.pick(&["f", "g", "A", "B", "detection", "true_positives", "true_negatives"])).to_string(),
                };
                if kv.iter().any(|(x, _): &(String, J)| *x == k) {
                    continue;
                }
                kv.push((k, yaml_shape(g, depth - 1)));
            }
            obj(kv)
        }
    }
}

/// {f: {f: ... leaf}} nested `depth` times, encoded compactly (the renderer expands it)
fn deep_nest(depth: usize, leaf: J) -> J {
    json!({"t":"nest","k":cps("f"),"n":depth,"v":leaf})
}

fn fuzz_case(g: &mut G, rule_files: &[String]) -> J {
    match g.r.below(12) {
        // condition text, inside the modelled alphabet: the grammar decides the outcome
        0 | 1 | 2 => {
            let text = cond_soup(g, false);
            json!({"topic":"condfuzz","oracle":true,"wt":false,"bodies_ok":true,
                   "src":{"cond":{"t":"text","s":cps(&text)},"ids":atom_ids()},"docs":atom_docs(g),
                   "plan":{"tri":false,"sws":[[], [true,true,true,true]]}})
        }
        // condition text with arbitrary characters: totality only
        3 => {
            let text = cond_soup(g, true);
            json!({"topic":"condfuzz","oracle":false,"wt":false,
                   "src":{"cond":{"t":"text","s":cps(&text)},"ids":atom_ids()},"docs":atom_docs(g),
                   "plan":{"tri":false,"sws":[[], [true,true,true,true]]}})
        }
        // pattern text on its own
        4 | 5 => json!({"topic":"ident","run":"ident","text":cps(&pat_soup(g)),"icb":cfg!(feature = "ic")}),
        // pattern text / key text inside a rule
        6 => {
            let p = pat_soup(g);
            let inner = match g.r.below(5) {
                // two regexes of one case class whose compiled programs are large (counted repetition
                // of a Unicode class): each loads alone, the list is compiled into ONE set
                4 => {
                    let big = ["^\\w{32}$", "^\\w{40}$", "\\w{24}-\\w{24}", "[\\p{L}]{40}", "\\w{16}",
                               // each compiles alone under the default size limit; two or three of them in ONE set do not
                               "\\w{120}a", "\\w{120}b", "a\\pL{200}", "b\\pL{200}", "c\\pL{200}", "\\w{80}a", "\\w{80}b", "\\w{80}c"];
                    let pre = if g.r.chance(1, 3) { "i?" } else { "?" };
                    let a = format!("{}{}", pre, g.r.pick(&big));
                    let b = format!("{}{}", pre, g.r.pick(&big));
                    let mut vs = vec![s_node(&a), s_node(&b)];
                    if g.r.chance(1, 2) { vs.push(s_node(&format!("{}{}", pre, g.r.pick(&big)))); }
                    json!({"t":"A","vs":vs})
                }
                0 => s_node(&p),
                1 => json!({"t":"A","vs":[s_node(&p), s_node(&pat_soup(g)), s_node("x")]}),
                3 => { let q = pat_soup(g); json!({"t":"A","vs":[s_node(&p), s_node(&q), s_node(&p), s_node(&q)]}) }
                _ => obj(vec![("g".into(), s_node(&p))]),
            };
            let key = match g.r.below(5) {
                0 => pat_soup(g),
                1 => cond_soup(g, true),
                2 => (*g.r.pick(&["a]b[0]", "args][", "]x[", "f[0]]", "[[0]", "a[0][1]", "a[+1]", "a.b][.c[1]", "int()", "not()", "all()", "str()", "of(,1)", "int(a]b[0])", "f[", "f]", "f[]", "f[-1]", "f[99999999999999999999]"])).to_string(),
                _ => "f".to_string(),
            };
            let det = obj(vec![("A".into(), obj(vec![(key, inner)])), ("condition".into(), s_node("A"))]);
            json!({"topic":"fuzz","run":"fuzz","yaml":obj(vec![("detection".into(), det),
                   ("true_positives".into(), json!({"t":"A","vs":[]})), ("true_negatives".into(), json!({"t":"A","vs":[]}))])})
        }
        // YAML shapes in every position
        7 | 8 => {
            let det = match g.r.below(4) {
                0 => yaml_shape(g, 3),
                _ => obj(vec![("A".into(), yaml_shape(g, 3)), ("condition".into(), if g.r.chance(3, 4) { s_node("A") } else { yaml_shape(g, 1) })]),
            };
            let mut kv = vec![("detection".to_string(), det)];
            if g.r.chance(3, 4) {
                kv.push(("true_positives".into(), if g.r.chance(2, 3) { json!({"t":"A","vs":[yaml_shape(g, 2)]}) } else { yaml_shape(g, 2) }));
            }
            if g.r.chance(3, 4) {
                kv.push(("true_negatives".into(), if g.r.chance(2, 3) { json!({"t":"A","vs":[]}) } else { yaml_shape(g, 2) }));
            }
            if g.r.chance(1, 4) {
                kv.push(("optimised".into(), yaml_shape(g, 0)));
            }
            json!({"topic":"fuzz","run":"fuzz","yaml":obj(kv)})
        }
        // deep nesting (bounded by 64)
        9 => {
            let d = 1 + g.r.below(64);
            match g.r.below(3) {
                0 => {
                    let det = obj(vec![("A".into(), deep_nest(d, s_node("x"))), ("condition".into(), s_node("A"))]);
                    json!({"topic":"fuzz","run":"fuzz","yaml":obj(vec![("detection".into(), det),
                           ("true_positives".into(), json!({"t":"A","vs":[deep_nest(d, s_node("x"))]})), ("true_negatives".into(), json!({"t":"A","vs":[]}))])})
                }
                1 => {
                    let text = format!("{}A{}", "(".repeat(d), ")".repeat(d));
                    json!({"topic":"condfuzz","oracle":true,"wt":false,"bodies_ok":true,
                           "src":{"cond":{"t":"text","s":cps(&text)},"ids":atom_ids()},"docs":atom_docs(g),
                           "plan":{"tri":false,"sws":[[], [true,true,true,true]]}})
                }
                _ => {
                    let text = format!("{}A", "not ".repeat(d));
                    json!({"topic":"condfuzz","oracle":true,"wt":false,"bodies_ok":true,
                           "src":{"cond":{"t":"text","s":cps(&text)},"ids":atom_ids()},"docs":atom_docs(g),
                           "plan":{"tri":false,"sws":[[], [true,true,true,true]]}})
                }
            }
        }
        // raw text: mutations of the repository's own rule files, or random characters
        _ => {
            let mut text: Vec<char> = if !rule_files.is_empty() && g.r.chance(4, 5) {
                g.r.pick(rule_files).chars().collect()
            } else {
                Vec::new()
            };
            let muts = 1 + g.r.below(6);
            for _ in 0..muts {
                let pos = g.r.below(text.len() + 1);
                match g.r.below(5) {
                    0 if !text.is_empty() => {
                        let pos = pos.min(text.len() - 1);
                        text.remove(pos);
                    }
                    1 if !text.is_empty() => {
                        let pos = pos.min(text.len() - 1);
                        let end = (pos + 1 + g.r.below(12)).min(text.len());
                        text.drain(pos..end);
                    }
                    2 => {
                        let ins: Vec<char> = pat_soup(g).chars().collect();
                        for (i, c) in ins.into_iter().enumerate() {
                            text.insert(pos + i, c);
                        }
                    }
                    3 => {
                        let ins: Vec<char> = cond_soup(g, true).chars().collect();
                        for (i, c) in ins.into_iter().enumerate() {
                            text.insert(pos + i, c);
                        }
                    }
                    _ => text.insert(pos, *g.r.pick(&[':', '-', ' ', '\n', '#', '[', ']', '{', '}', '!', '&', '*', '|', '>', '\'', '"', '%', '@', '`', '\t', '\u{0}', 'é', '😀'])),
                }
            }
            let t: String = text.into_iter().collect();
            json!({"topic":"fuzz","run":"fuzz","text":cps(&t)})
        }
    }
}

/// add / remove / alter fields that no rule generated here can address: the names below are
/// never used as field names by the generators (they include the one-character keys that the
/// matrix optimisation uses internally)
fn perturb(g: &mut G, d: &J, depth: usize) -> J {
    const EXTRA: &[&str] = &["zz", "\u{0}", "\u{1}", "\u{2}", "q9", "zz.f", "Zf", "#text", "value"];
    match d["t"].as_str().unwrap_or("") {
        "O" => {
            let mut kv: Vec<J> = vec![];
            for p in d["kv"].as_array().cloned().unwrap_or_default() {
                let k = str_of(&p[0]).unwrap_or_default();
                if EXTRA.contains(&k.as_str()) {
                    match g.r.below(3) {
                        0 => continue,                                       // remove
                        1 => kv.push(json!([p[0], s_node(&g.word(3, true))])), // alter
                        _ => kv.push(p.clone()),
                    }
                } else if depth < 3 {
                    kv.push(json!([p[0], perturb(g, &p[1], depth + 1)]));
                } else {
                    kv.push(p.clone());
                }
            }
            let n = g.r.below(3);
            for _ in 0..n {
                let k = *g.r.pick(EXTRA);
                if kv.iter().any(|p| str_of(&p[0]).map(|x| x == k).unwrap_or(false)) {
                    continue;
                }
                let v = match g.r.below(4) {
                    0 => s_node(&g.word(3, false)),
                    1 => i_node(&g.int_text()),
                    2 => json!({"t":"A","vs":[s_node("a")]}),
                    _ => obj(vec![("f".into(), s_node("x"))]),
                };
                let pos = g.r.below(kv.len() + 1);
                kv.insert(pos, json!([cps(k), v]));
            }
            json!({"t":"O","kv":kv})
        }
        "A" if depth < 3 => json!({"t":"A","vs":d["vs"].as_array().cloned().unwrap_or_default().iter().map(|x| perturb(g, x, depth + 1)).collect::<Vec<_>>()}),
        _ => d.clone(),
    }
}

// ---------------------------------------------------------------------------------------------
// C17: reorder operands at positions that are not underneath a negation or a none-of quantifier

fn shuffle(g: &mut G, v: &mut Vec<J>) {
    for i in (1..v.len()).rev() {
        let j = g.r.below(i + 1);
        v.swap(i, j);
    }
}

fn neg_refs(c: &J, under: bool, out: &mut std::collections::HashSet<String>) {
    match c["t"].as_str().unwrap_or("") {
        "and" | "or" => {
            neg_refs(&c["l"], under, out);
            neg_refs(&c["r"], under, out);
        }
        "not" => neg_refs(&c["e"], true, out),
        "par" => neg_refs(&c["e"], under, out),
        "id" | "all" => {
            if under {
                out.insert(str_of(&c["n"]).unwrap_or_default());
            }
        }
        "of" => {
            if under || c["c"].as_u64() == Some(0) {
                out.insert(str_of(&c["n"]).unwrap_or_default());
            }
        }
        _ => {}
    }
}

fn permute_cond(g: &mut G, c: &J, under: bool) -> J {
    match c["t"].as_str().unwrap_or("") {
        t @ ("and" | "or") => {
            let l = permute_cond(g, &c["l"], under);
            let r = permute_cond(g, &c["r"], under);
            if !under && g.r.chance(1, 2) {
                json!({"t":t,"l":r,"r":l})
            } else {
                json!({"t":t,"l":l,"r":r})
            }
        }
        "not" => json!({"t":"not","e":permute_cond(g, &c["e"], true)}),
        "par" => json!({"t":"par","e":permute_cond(g, &c["e"], under)}),
        _ => c.clone(),
    }
}

fn permute_entries(g: &mut G, es: &J) -> J {
    let mut out: Vec<J> = es.as_array().cloned().unwrap_or_default().into_iter().map(|e| permute_entry(g, &e)).collect();
    shuffle(g, &mut out);
    J::Array(out)
}

fn permute_entry(g: &mut G, e: &J) -> J {
    let mut e = e.clone();
    let neg = e["m"] == "not" || (e["m"] == "of" && e["c"].as_u64() == Some(0));
    if neg {
        return e;
    }
    let v = e["v"].clone();
    e["v"] = match v["t"].as_str().unwrap_or("") {
        "map" => json!({"t":"map","es":permute_entries(g, &v["es"])}),
        "list" => {
            let mut vs: Vec<J> = v["vs"].as_array().cloned().unwrap_or_default().into_iter().map(|m| {
                if m["t"] == "map" { json!({"t":"map","es":permute_entries(g, &m["es"])}) } else { m }
            }).collect();
            shuffle(g, &mut vs);
            json!({"t":"list","vs":vs})
        }
        _ => v,
    };
    e
}

pub fn permute_src(g: &mut G, src: &J) -> J {
    let mut neg = std::collections::HashSet::new();
    neg_refs(&src["cond"], false, &mut neg);
    let cond = permute_cond(g, &src["cond"], false);
    let mut ids = vec![];
    for pair in src["ids"].as_array().cloned().unwrap_or_default() {
        let name = str_of(&pair[0]).unwrap_or_default();
        if neg.contains(&name) {
            ids.push(pair);
            continue;
        }
        let b = &pair[1];
        let nb = if b["t"] == "seq" {
            let mut ms: Vec<J> = b["ms"].as_array().cloned().unwrap_or_default().into_iter()
                .map(|m| json!({"t":"map","es":permute_entries(g, &m["es"])})).collect();
            shuffle(g, &mut ms);
            json!({"t":"seq","ms":ms})
        } else {
            json!({"t":"map","es":permute_entries(g, &b["es"])})
        };
        ids.push(json!([pair[0], nb]));
    }
    shuffle(g, &mut ids);
    json!({"cond":cond,"ids":ids})
}

/// C05: a random condition tree rendered to TEXT with random redundant parentheses and extra
/// spaces; identifiers include words that begin with keyword letters
fn cond_tree(g: &mut G, depth: usize) -> J {
    let names = COND_NAMES;
    if depth == 0 || g.r.chance(1, 4) {
        return match g.r.below(12) {
            0 => json!({"t":"all","n":cps(*g.r.pick(names))}),
            1 => json!({"t":"of","n":cps(*g.r.pick(names)),"c":g.r.below(3)}),
            2 | 3 => {
                let (mut l, mut r) = if g.r.chance(1, 2) {
                    (json!({"t":"cast","k":"int","f":cps("f")}), json!({"t":"const","n":int_node(&format!("{}", g.r.below(3)))}))
                } else {
                    (json!({"t":"const","n":flt_node("1.5")}), json!({"t":"cast","k":"flt","f":cps("g")}))
                };
                // redundant parentheses around a lone operand: `(int(f)) > 1`, `int(f) > (1)`
                if g.r.chance(1, 4) { l = json!({"t":"par","e":l}); }
                if g.r.chance(1, 4) { r = json!({"t":"par","e":r}); }
                json!({"t":"cmp","op":*g.r.pick(&["eq","gt","ge","lt","le"]),"l":l,"r":r})
            }
            _ => json!({"t":"id","n":cps(*g.r.pick(names))}),
        };
    }
    let t = match g.r.below(10) {
        0..=3 => json!({"t":"and","l":cond_tree(g, depth - 1),"r":cond_tree(g, depth - 1)}),
        4..=7 => json!({"t":"or","l":cond_tree(g, depth - 1),"r":cond_tree(g, depth - 1)}),
        _ => json!({"t":"not","e":cond_tree(g, depth - 1)}),
    };
    if g.r.chance(1, 5) {
        json!({"t":"par","e":t})
    } else {
        t
    }
}

fn respace(g: &mut G, text: &str) -> String {
    // extra U+0020 between lexemes: after a space, and around parentheses that are not part of a
    // keyword( lexeme
    let mut out = String::new();
    let cs: Vec<char> = text.chars().collect();
    for (i, c) in cs.iter().enumerate() {
        out.push(*c);
        if *c == ' ' && g.r.chance(1, 3) {
            out.push_str(&" ".repeat(1 + g.r.below(2)));
        }
        if *c == ')' && g.r.chance(1, 4) {
            out.push(' ');
        }
        if *c == '(' && g.r.chance(1, 4) {
            // only after a free-standing parenthesis (not all( of( int( flt( str( )
            let prev_alpha = i > 0 && cs[i - 1].is_alphanumeric();
            if !prev_alpha {
                out.push(' ');
            }
        }
    }
    if g.r.chance(1, 4) {
        out.insert(0, ' ');
    }
    if g.r.chance(1, 4) {
        out.push(' ');
    }
    out
}

/// C03: sizes at which indices, bitmaps and synthetic keys change representation: a matrix of more
/// than 128 columns (the column key becomes a multi-byte character), batches of 63 / 64 / 65 / 70
/// members (slow_aho switches from a bitmap to a set at 64)
fn big_case(g: &mut G, i: usize) -> J {
    let exact = |t: &str| json!({"t":"pat","k":"exact","ic":false,"a":cps(t)});
    if i % 4 == 3 {
        // three regexes with large compiled programs on one field as or-ed identifiers: each compiles
        // alone, the RegexSet that shake builds from them exceeds the regex crate's default size limit
        let ic = g.r.chance(1, 3);
        let reps = 70 + g.r.below(20);
        let ids: Vec<J> = ['a', 'b', 'c'].iter().enumerate().map(|(k, l)| {
            let mut atoms: Vec<J> = (0..reps).map(|_| json!({"t":"cls","n":"w"})).collect();
            atoms.push(json!({"t":"c","c": *l as u32}));
            json!([cps(IDENTS[k]), {"t":"map","es":[{"m":"none","c":0,"f":cps("f"),"v":{"t":"pat","k":"regex","ic":ic,"a":atoms}}]}])
        }).collect();
        let cond = (0..3).map(|k| json!({"t":"id","n":cps(IDENTS[k])})).reduce(|l, r| json!({"t":"or","l":l,"r":r})).unwrap();
        let long: String = "w".repeat(reps);
        let docs = vec![obj(vec![("f".into(), s_node(&format!("{}b", long)))]), obj(vec![("f".into(), s_node("wb"))]),
                        obj(vec![("f".into(), s_node(&format!("{}d", long)))]), obj(vec![])];
        return json!({"topic":"big","oracle":true,"wt":true,"src":{"cond":cond,"ids":ids},"docs":docs,
               "plan":{"tri":false,"sws":[[], [true,true,true,true], [false,true,false,false], [true,true,false,false]]}});
    }
    if i % 2 == 0 {
        let nf = 129 + g.r.below(8);
        let mut ids = vec![];
        let mut terms: Vec<String> = vec![];
        for k in 0..nf {
            let name = format!("I{}", k);
            ids.push(json!([cps(&name), {"t":"map","es":[{"m":"none","c":0,"f":cps(&format!("f{}", k)),"v":exact("x")}]}]));
            terms.push(name);
        }
        // a second predicate on the first field, so that the field is counted twice
        // (a NUMBER, so that shake does not merge it with the string search on f0)
        ids.push(json!([cps("J"), {"t":"map","es":[{"m":"none","c":0,"f":cps("f0"),"v":{"t":"num","n":int_node("5")}}]}]));
        terms.push("J".to_string());
        // the condition as TEXT: a left-deep tree of 130 nodes exceeds the JSON nesting limit
        let src = json!({"cond":{"t":"text","s":cps(&terms.join(" or "))},"ids":ids});
        let docs = vec![
            obj(vec![(format!("f{}", nf - 1), s_node("x"))]),
            obj(vec![(format!("f{}", 128), s_node("x")), ("f0".into(), s_node("z"))]),
            obj(vec![("f0".into(), i_node("5"))]),
            obj(vec![("f0".into(), s_node("x"))]),
            obj(vec![("f3".into(), s_node("q"))]),
            obj(vec![]),
        ];
        json!({"topic":"big","oracle":true,"wt":false,"bodies_ok":true,"src":src,"docs":docs,
               "plan":{"tri":false,"sws":[[], [true,true,true,true], [false,false,false,true], [true,false,false,true]]}})
    } else {
        let n = *g.r.pick(&[63usize, 64, 65, 70]);
        let vs: Vec<J> = (0..n).map(|k| json!({"t":"pat","k":"contains","ic":false,"a":cps(&format!("m{}z", k))})).collect();
        let (m, c) = match g.r.below(3) { 0 => ("all", 0), 1 => ("of", n), _ => ("of", n - 1) };
        let src = json!({"cond":{"t":"id","n":cps("A")},"ids":[[cps("A"),{"t":"map","es":[{"m":m,"c":c,"f":cps("f"),"v":{"t":"list","vs":vs}}]}]]});
        let all: String = (0..n).map(|k| format!("m{}z", k)).collect();
        let but_last: String = (0..n - 1).map(|k| format!("m{}z", k)).collect();
        let but_two: String = (0..n - 2).map(|k| format!("m{}z", k)).collect();
        let docs = vec![obj(vec![("f".into(), s_node(&all))]), obj(vec![("f".into(), s_node(&but_last))]),
                        obj(vec![("f".into(), s_node(&but_two))]), obj(vec![("f".into(), s_node("m0z"))]), obj(vec![])];
        json!({"topic":"big","oracle":true,"wt":true,"src":src,"docs":docs,
               "plan":{"tri":false,"sws":[[], [true,true,true,true]]}})
    }
}

pub fn gen_cases(topic: &str, seed: u64, n: usize, path: &str) -> Result<(), String> {
    if topic == "big" {
        let mut g = G::new(seed ^ 0xB16);
        let mut w = BufWriter::new(File::create(path).map_err(|e| e.to_string())?);
        for i in 0..n {
            writeln!(w, "{}", big_case(&mut g, i)).map_err(|e| e.to_string())?;
        }
        w.flush().map_err(|e| e.to_string())?;
        return Ok(());
    }
    if topic == "bigc" {
        // C08: the count is over DISTINCT members also for lists of 64 and more (slow_aho switches
        // from a bitmap to a set there): short values in which one member occurs several times
        let mut g = G::new(seed ^ 0xB16C);
        let mut w = BufWriter::new(File::create(path).map_err(|e| e.to_string())?);
        for _ in 0..n {
            let nn = *g.r.pick(&[63usize, 64, 65, 70]);
            let vs: Vec<J> = (0..nn).map(|k| json!({"t":"pat","k":"contains","ic":false,"a":cps(&format!("m{}z", k))})).collect();
            let c = 2 + g.r.below(3);
            let (m, cc) = if g.r.chance(1, 4) { ("all", 0) } else { ("of", c) };
            let src = json!({"cond":{"t":"id","n":cps("A")},"ids":[[cps("A"),{"t":"map","es":[{"m":m,"c":cc,"f":cps("f"),"v":{"t":"list","vs":vs}}]}]]});
            let a = g.r.below(nn);
            let b = (a + 1 + g.r.below(nn - 1)) % nn;
            let rep = |k: usize, times: usize| -> String { (0..times).map(|_| format!("m{}z", k)).collect() };
            let docs = vec![
                obj(vec![("f".into(), s_node(&rep(a, c)))]),                                  // one member, c times
                obj(vec![("f".into(), s_node(&format!("{}{}", rep(a, c - 1), rep(b, 1))))]),   // two members, c occurrences
                obj(vec![("f".into(), s_node(&(0..c).map(|i| format!("m{}z", (a + i) % nn)).collect::<String>()))]),  // c members
                obj(vec![("f".into(), s_node(&format!("{}x{}", rep(a, 1), rep(a, 1))))]),
                obj(vec![]),
            ];
            let c = json!({"topic":"bigc","oracle":true,"wt":true,"src":src,"docs":docs,
                           "plan":{"tri":true,"sws":[[], [true,true,true,true]]}});
            writeln!(w, "{}", c).map_err(|e| e.to_string())?;
        }
        w.flush().map_err(|e| e.to_string())?;
        return Ok(());
    }
    if topic == "bigp" {
        // C12: the printed optimised expression must not depend on HOW MUCH the process has optimised
        // before: rules with six lists of 120 patterns (one automaton each after shake), optimised
        // again and again in one process
        let mut g = G::new(seed ^ 0xB19F);
        let mut w = BufWriter::new(File::create(path).map_err(|e| e.to_string())?);
        for c in 0..n {
            let ids: Vec<J> = (0..6).map(|i| {
                let vs: Vec<J> = (0..120).map(|j| json!({"t":"pat","k":(["contains", "prefix", "suffix"][j % 3]),"ic":false,
                                                          "a":cps(&format!("{} is the number of this somewhat longer needle, case {} field {}", j, c, i))})).collect();
                json!([cps(IDENTS[i]), {"t":"map","es":[{"m":"none","c":0,"f":cps(&format!("f{}", i)),"v":{"t":"list","vs":vs}}]}])
            }).collect();
            let cond = (0..6).map(|i| json!({"t":"id","n":cps(IDENTS[i])})).reduce(|l, r| json!({"t":"or","l":l,"r":r})).unwrap();
            let src = json!({"cond":cond,"ids":ids});
            let i = g.r.below(6);
            let docs = vec![obj(vec![(format!("f{}", i), s_node(&format!("z6 is the number of this somewhat longer needle, case {} field {}z", c, i)))]), obj(vec![("f0".into(), s_node("nothing"))])];
            let case = json!({"topic":"bigp","oracle":false,"wt":true,"src":src,"docs":docs,
                              "plan":{"tri":false,"scope":"sw","sws":[[], [true,true,true,true], [false,true,false,false], [true,true,false,false]],"expr":true,"repeat":7}});
            writeln!(w, "{}", case).map_err(|e| e.to_string())?;
        }
        w.flush().map_err(|e| e.to_string())?;
        return Ok(());
    }
    if topic == "bigq" {
        // C12: quantified lists of 65..200 needles (slow_aho: hit sets of 64 and more members), in
        // runs of cases whose sizes differ, each executed again later and from fresh threads - a
        // verdict must not depend on what was matched before on the same thread
        let mut g = G::new(seed ^ 0xB190);
        let mut w = BufWriter::new(File::create(path).map_err(|e| e.to_string())?);
        for i in 0..n {
            let nn = if i % 2 == 0 { *g.r.pick(&[130usize, 190, 200, 129]) } else { *g.r.pick(&[65usize, 70, 100, 127]) };
            let vs: Vec<J> = (0..nn).map(|k| json!({"t":"pat","k":"contains","ic":false,"a":cps(&format!("m{}z", k))})).collect();
            let hi: String = (nn / 2..nn).map(|k| format!("m{}z", k)).collect();
            let all: String = (0..nn).map(|k| format!("m{}z", k)).collect();
            let but_last: String = (0..nn - 1).map(|k| format!("m{}z", k)).collect();
            let (m, c) = match g.r.below(4) { 0 => ("all", 0), 1 => ("of", nn), 2 => ("of", nn - nn / 2 + 1), _ => ("of", nn / 2) };
            let src = json!({"cond":{"t":"id","n":cps("A")},"ids":[[cps("A"),{"t":"map","es":[{"m":m,"c":c,"f":cps("f"),"v":{"t":"list","vs":vs}}]}]]});
            // the LAST document matched leaves its hits behind: for the larger list it is the one
            // whose hits lie in the upper half
            let docs = vec![obj(vec![("f".into(), s_node("m1z"))]), obj(vec![("f".into(), s_node(&but_last))]),
                            obj(vec![("f".into(), s_node(&all))]), obj(vec![("f".into(), s_node(&hi))])];
            let c = json!({"topic":"bigq","oracle":false,"wt":true,"src":src,"docs":docs,
                           "plan":{"tri":false,"scope":"sw","sws":[[], [true,true,true,true]],"threads":2,"again":true}});
            writeln!(w, "{}", c).map_err(|e| e.to_string())?;
        }
        w.flush().map_err(|e| e.to_string())?;
        return Ok(());
    }
    if topic == "typ" {
        // the STATIC semantics of identifier bodies (spec/TauType.tla): every key modifier against
        // every kind of value, alone and in lists, nested one level - well typed or not; the
        // specification says which load
        let mut g = G::new(seed ^ 0x7199);
        let mut w = BufWriter::new(File::create(path).map_err(|e| e.to_string())?);
        fn scalar(g: &mut G) -> J {
            match g.r.below(9) {
                0 => json!({"t":"bool","b":g.r.chance(1, 2)}),
                1 => json!({"t":"null"}),
                2 => json!({"t":"num","n":int_node(&g.int_text())}),
                3 => json!({"t":"num","n":flt_node(*g.r.pick(&["1.5", "0.25", "-2.5", "nan", "inf", "-inf", "0.5"]))}),
                4 => json!({"t":"num","n":int_node(*g.r.pick(&["9223372036854775808", "18446744073709551615"]))}),
                5 => json!({"t":"cmp","op":*g.r.pick(&["eq", "gt", "ge", "lt", "le"]),"n":int_node(&format!("{}", g.r.below(5)))}),
                6 => json!({"t":"cmp","op":*g.r.pick(&["gt", "le"]),"n":flt_node("1.5")}),
                _ => g.pattern(true),
            }
        }
        fn entry(g: &mut G, field: &str, depth: usize) -> J {
            let v = match g.r.below(10) {
                0..=4 => scalar(g),
                5..=7 => {
                    let n = g.r.below(4);
                    let mut vs: Vec<J> = vec![];
                    let first = scalar(g);
                    for i in 0..n {
                        // mostly one kind per list, sometimes mixed, sometimes a mapping / null / list inside
                        let x = match g.r.below(24) {
                            0..=17 if i > 0 => { let mut y = scalar(g); for _ in 0..6 { if y["t"] == first["t"] { break; } y = scalar(g); } y }
                            18 | 19 if depth > 0 => json!({"t":"map","es":[entry(g, "x", depth - 1)]}),
                            20 => json!({"t":"list","vs":[scalar(g)]}),
                            _ => if i == 0 { first.clone() } else { scalar(g) },
                        };
                        vs.push(x);
                    }
                    // float members: sometimes a NaN or an infinity among them (they cannot be ordered)
                    if first["t"] == "num" && first["n"]["k"] == "f" && g.r.chance(1, 2) {
                        let pos = g.r.below(vs.len() + 1);
                        vs.insert(pos, json!({"t":"num","n":flt_node(*g.r.pick(&["nan", "inf", "-inf"]))}));
                    }
                    json!({"t":"list","vs":vs})
                }
                _ if depth > 0 => {
                    let n = g.r.below(3);
                    let fields = ["x", "y"];
                    json!({"t":"map","es":(0..n.min(2)).map(|i| entry(g, fields[i], depth - 1)).collect::<Vec<_>>()})
                }
                _ => scalar(g),
            };
            // a boolean under a cast key (`flt(k): true`, `int(k): false`, `str(k): true`) loads
            if depth == 1 && g.r.chance(1, 10) {
                let m = *g.r.pick(&["flt", "flt", "int", "str"]);
                let b = json!({"t":"bool","b":g.r.chance(1, 2)});
                let v = if g.r.chance(1, 3) { json!({"t":"list","vs":[b, {"t":"num","n":flt_node("1.5")}]}) } else { b };
                return json!({"m":m,"c":0,"f":cps(field),"v":v});
            }
            // the modifier: usually one that the value admits, so that about half of the rules load
            let m = if v["t"] == "list" { *g.r.pick(&["none", "none", "not", "int", "flt", "str", "all", "of", "all", "of"]) }
                    else if g.r.chance(1, 12) { *g.r.pick(&["all", "of"]) }
                    else { *g.r.pick(&["none", "none", "none", "none", "not", "int", "flt", "str"]) };
            json!({"m":m,"c":g.r.below(3),"f":cps(field),"v":v})
        }
        for _ in 0..n {
            let nid = 1 + g.r.below(2);
            let mut ids = vec![];
            for i in 0..nid {
                let ne = 1 + g.r.below(2);
                let fields = ["f", "g"];
                let map = json!({"t":"map","es":(0..ne).map(|k| entry(&mut g, fields[k], 1)).collect::<Vec<_>>()});
                let body = match g.r.below(24) {
                    0 | 1 | 2 => json!({"t":"seq","ms":[map, {"t":"map","es":[entry(&mut g, "h", 0)]}]}),
                    3 => json!({"t":"map","es":[]}),
                    4 => json!({"t":"seq","ms":[]}),
                    _ => map,
                };
                ids.push(json!([cps(IDENTS[i]), body]));
            }
            let cond = if nid == 1 { json!({"t":"id","n":cps("A")}) } else { json!({"t":*g.r.pick(&["and", "or"]),"l":{"t":"id","n":cps("A")},"r":{"t":"id","n":cps("B")}}) };
            let src = json!({"cond":cond,"ids":ids});
            let mut docs: Vec<J> = (0..3).map(|_| g.doc_for(&src)).collect();
            // whatever loads is evaluated on values of every kind under its keys
            for v in [i_node("1"), f_node("1.5"), s_node("2"), json!({"t":"B","b":true}), json!({"t":"N"})] {
                docs.push(obj(vec![("f".into(), v.clone()), ("g".into(), v.clone()), ("h".into(), v)]));
            }
            let c = json!({"topic":"typ","oracle":false,"wt":false,"typed":true,"src":src,"docs":docs,
                           "plan":{"tri":false,"sws":[[], [true,true,true,true]]}});
            writeln!(w, "{}", c).map_err(|e| e.to_string())?;
        }
        w.flush().map_err(|e| e.to_string())?;
        return Ok(());
    }
    if topic == "cond" {
        let mut g = G::new(seed ^ 0xC05D);
        let mut w = BufWriter::new(File::create(path).map_err(|e| e.to_string())?);
        for _ in 0..n {
            let depth = 2 + g.r.below(3);
            let tree = cond_tree(&mut g, depth);
            let text = match crate::render::cond_text(&tree) {
                Ok(t) => respace(&mut g, &t),
                Err(_) => continue,
            };
            let c = json!({"topic":"cond","oracle":true,"wt":false,"bodies_ok":true,
                   "src":{"cond":{"t":"text","s":cps(&text)},"ids":atom_ids()},"reftree":tree,"docs":atom_docs(&mut g),
                   "plan":{"tri":false,"sws":[[]]}});
            writeln!(w, "{}", c).map_err(|e| e.to_string())?;
        }
        w.flush().map_err(|e| e.to_string())?;
        return Ok(());
    }
    if topic == "keys" {
        // random key texts (runner `key`): documented forms with padding and odd white space, multi-word names,
        // indexed / dotted names, keyword-shaped words, bracket soups, non-ASCII letters, long counts
        let mut g = G::new(seed ^ 0x6B65);
        let mut w = BufWriter::new(File::create(path).map_err(|e| e.to_string())?);
        let words = ["a", "Image", "Path", "b1", "a.b", "tags[0]", "a.b[1].c", "x_y", "n#1", "and", "or", "not", "all", "of", "int",
                     "order", "android", "nothing", "offline", "allow", "integer", "string", "é", "ß", "K", "_id", "1st", "e-mail", "a,b", "03", "1.10", "2.0", "007", "3", "0x10", "1e3", "-4"];
        let seps = [" ", " ", " ", "  ", "\t", "\n", " \t ", "\u{b}", "\u{c}", "\r", "\u{a0}", ""];
        let mods = ["int(", "flt(", "str(", "not(", "all(", "of(", "string(", "int (", "all (", "of (", "not ", "INT(", "Int(", "("];
        for _ in 0..n {
            let mut name = String::new();
            for i in 0..1 + g.r.below(3) {
                if i > 0 { name.push_str(*g.r.pick(&seps[..])); }
                name.push_str(*g.r.pick(&words[..]));
            }
            let pad = |g: &mut G| if g.r.chance(1, 3) { g.r.pick(&seps[..]).to_string() } else { String::new() };
            let text = match g.r.below(8) {
                0 | 1 => format!("{}{}{}", pad(&mut g), name, pad(&mut g)),
                2 | 3 | 4 => {
                    let m = g.r.pick(&mods[..]).to_string();
                    let count = if m.starts_with("of") {
                        let c = ["0", "1", "2", "02", "10", "9999", "10000", "99999", "18446744073709551616", "-1", "1.5", "2 ", " 2", "x", ""];
                        format!("{}{},{}{}", pad(&mut g), if g.r.chance(1, 8) { "," } else { "" }, pad(&mut g), *g.r.pick(&c[..]))
                    } else { String::new() };
                    let close = if g.r.chance(1, 10) { "" } else if g.r.chance(1, 10) { "))" } else { ")" };
                    format!("{}{}{}{}{}{}{}{}", pad(&mut g), m, pad(&mut g), name, pad(&mut g), count, close, pad(&mut g))
                }
                5 => { let m = g.r.pick(&mods[..]).to_string(); let m2 = g.r.pick(&mods[..]).to_string(); format!("{}{}{}))", m, m2, name) }
                6 => { let o = ["==", ">", "<=", " and ", " or ", ",", "(", ")", "[", "]"]; format!("{}{}{}", name, *g.r.pick(&o[..]), *g.r.pick(&words[..])) }
                _ => { let mut s = String::new(); for _ in 0..g.r.below(7) { let pool = ["(", ")", ",", " ", "a", "int(", "of(", "all(", "not ", "2", ".", "[", "]", "\t", "and ", "=", "-", "#"]; s.push_str(*g.r.pick(&pool[..])); } s }
            };
            let c = json!({"topic":"keys","run":"key","text":cps(&text)});
            writeln!(w, "{}", c).map_err(|e| e.to_string())?;
        }
        w.flush().map_err(|e| e.to_string())?;
        return Ok(());
    }
    if topic == "fuzz" || topic == "condfuzz" || topic == "identfuzz" {
        let mut g = G::new(seed ^ 0xF022);
        let mut w = BufWriter::new(File::create(path).map_err(|e| e.to_string())?);
        let mut files = vec![];
        if let Ok(rd) = std::fs::read_dir("/repo/tests/rules") {
            let mut names: Vec<_> = rd.filter_map(|e| e.ok()).map(|e| e.path()).collect();
            names.sort();
            for p in names {
                if let Ok(t) = std::fs::read_to_string(&p) {
                    files.push(t);
                }
            }
        }
        let mut k = 0;
        while k < n {
            let c = fuzz_case(&mut g, &files);
            let keep = match topic {
                "condfuzz" => c["topic"] == "condfuzz" && c["oracle"] == true,
                "identfuzz" => c["topic"] == "ident",
                _ => true,
            };
            if keep {
                writeln!(w, "{}", c).map_err(|e| e.to_string())?;
                k += 1;
                // every fourth modelled condition text is loaded AGAIN right away with one identifier block missing: the
                // same text, another rule - whether it loads depends on the blocks this rule has, not on the text
                if c["topic"] == "condfuzz" && c["oracle"] == true && g.r.chance(1, 4) {
                    let mut c2 = c.clone();
                    if let Some(ids) = c2["src"]["ids"].as_array_mut() {
                        if ids.len() > 1 {
                            let at = g.r.below(ids.len());
                            ids.remove(at);
                            writeln!(w, "{}", c2).map_err(|e| e.to_string())?;
                            k += 1;
                        }
                    }
                }
            }
        }
        w.flush().map_err(|e| e.to_string())?;
        return Ok(());
    }
    let force = topic.starts_with("ic+");
    let topic = topic.strip_prefix("ic+").unwrap_or(topic);
    let mut g = G::new(seed ^ topic.bytes().fold(0u64, |a, b| a.wrapping_mul(131).wrapping_add(b as u64)));
    let mut w = BufWriter::new(File::create(path).map_err(|e| e.to_string())?);
    let mut twin: Option<J> = None;
    for _ in 0..n {
        let mode = g.r.below(10);
        g.positive = matches!(topic, "opt" | "perm") && mode < 4;
        let shape = if topic == "nm" { 2 } else if topic == "samef" { 10 } else if topic == "samefq" { 11 } else if matches!(topic, "opt" | "adv" | "pure" | "find" | "lang" | "perm") { g.r.below(8) } else { 9 };
        let topic = if topic == "nm" || topic == "samef" { "opt" } else if topic == "samefq" { "lang" } else { topic };
        g.own_docs = None;
        g.samefq = shape == 11;
        let src = match shape { 10 | 11 => g.same_field_source(), 0 | 1 => g.matrix_source(), 2 => g.nested_merge_source(),
                                5 if matches!(topic, "opt" | "lang" | "adv") => g.flag_mix_source(),
                                6 | 7 if topic == "adv" => g.flag_mix_source(),
                                3 if matches!(topic, "pure" | "opt" | "find") => g.deep_nested_source(),
                                4 if matches!(topic, "find" | "opt" | "lang") => g.nested_multi_source(),
                                4 | 5 if matches!(topic, "pure" | "perm") => g.repeat_needle_source(),
                                6 if matches!(topic, "perm" | "lang" | "opt") => g.wild_list_source(),
                                7 if topic == "perm" => g.flag_mix_source(),
                                5 if matches!(topic, "find") => g.nested_cell_source(),
                                7 if matches!(topic, "opt") => if g.r.chance(1, 2) { g.nested_cell_source() } else { g.flag_mix_source() },
                                5 | 6 if topic == "pure" => g.pure_shape_source(), _ => g.source(3) };
        let nd = 3 + g.r.below(4);
        let complete = matches!(topic, "opt" | "perm") && mode >= 4 && mode < 9;
        let docs: Vec<J> = match g.own_docs.take() {
            Some(d) => d,
            None => (0..nd)
                .map(|i| if shape == 2 { g.nested_merge_doc() } else if complete && i > 0 { g.doc_complete(&src) } else { g.doc_for(&src) })
                .collect(),
        };
        let all17 = J::Array(crate::run::all_sws());
        let some_sws = {
            let all = crate::run::all_sws();
            let mut v = vec![all[0].clone(), all[16].clone()];
            for _ in 0..3 {
                v.push(all[1 + g.r.below(16)].clone());
            }
            J::Array(v)
        };
        let c: J = match topic {
            "lang" => json!({"topic":"lang","oracle":true,"wt":true,"src":src,"docs":docs,
                             "plan":{"tri":true,"sws":[[]],"eng":true}}),
            // C16: recorded find() calls, and documents perturbed in fields the rule does not address
            // a field name with whitespace other than single blanks: the key as WRITTEN is what the rule
            // addresses (KF-key-whitespace on the pinned code: the engine asks for the re-joined name)
            "find" if mode == 9 && g.r.chance(1, 3) => {
                let name = *g.r.pick(&["Image  Path", "Image\tPath", "a  b  c"]);
                let joined: String = name.split_whitespace().collect::<Vec<_>>().join(" ");
                let ent = |f: &str, v: J| json!({"m":"none","c":0,"f":cps(f),"v":v});
                let px = json!({"t":"pat","k":"exact","ic":false,"a":cps("x")});
                let src = json!({"cond":{"t":"id","n":cps("A")},"ids":[[cps("A"),{"t":"map","es":[ent(name, px.clone()), ent("g", px)]}]]});
                let base = vec![obj(vec![(name.to_string(), s_node("x")), ("g".into(), s_node("x"))]),
                                obj(vec![(name.to_string(), s_node("y")), ("g".into(), s_node("x"))]),
                                obj(vec![("g".into(), s_node("x"))])];
                let mut all_docs = vec![];
                let mut dcls = vec![];
                for (ci, d) in base.iter().enumerate() {
                    all_docs.push(d.clone());
                    dcls.push(ci);
                    // the re-joined name is a DIFFERENT field, which no predicate addresses
                    for v in ["x", "y"] {
                        let mut d2 = d.clone();
                        if let Some(kv) = d2.get_mut("kv").and_then(|k| k.as_array_mut()) { kv.push(json!([cps(&joined), s_node(v)])); }
                        all_docs.push(d2);
                        dcls.push(ci);
                    }
                }
                json!({"topic":"find","oracle":true,"wt":true,"src":src,"docs":all_docs,"dcls":dcls,
                       "plan":{"tri":false,"scope":"sw","sws":[[], [true,true,true,true]],"find":true}})
            }
            "find" => {
                let mut all_docs = vec![];
                let mut dcls = vec![];
                // root-level names that only occur as LATER segments of dotted keys (for `s.t`: `t`):
                // no predicate addresses them on the root
                let mut hints: std::collections::BTreeMap<String, Vec<J>> = Default::default();
                for pair in src["ids"].as_array().unwrap_or(&vec![]) {
                    collect_hints(&pair[1], "", &mut hints);
                }
                collect_cond_fields(&src["cond"], &mut hints);
                let firsts: std::collections::HashSet<String> = hints.keys().map(|k| k.split(['.', '[']).next().unwrap_or("").to_string()).collect();
                let mut later: Vec<String> = vec![];
                for k in hints.keys() {
                    for seg in k.split('.').skip(1) {
                        let name = seg.split('[').next().unwrap_or("").to_string();
                        if !name.is_empty() && !firsts.contains(&name) && !later.contains(&name) {
                            later.push(name);
                        }
                    }
                }
                for (ci, d) in docs.iter().enumerate() {
                    all_docs.push(d.clone());
                    dcls.push(ci);
                    for _ in 0..2 {
                        let mut pd = perturb(&mut g, d, 0);
                        if !later.is_empty() && g.r.chance(1, 2) {
                            let name = g.r.pick(&later).clone();
                            let val = match g.r.below(3) { 0 => s_node("x"), 1 => s_node(&g.word(3, true)), _ => i_node("1") };
                            if let Some(kv) = pd.get_mut("kv").and_then(|k| k.as_array_mut()) {
                                if !kv.iter().any(|p| str_of(&p[0]).map(|x| x == name).unwrap_or(false)) {
                                    kv.push(json!([cps(&name), val]));
                                }
                            }
                        }
                        // a member LITERALLY named like a dotted path of the rule (`"s.t": v`, the way flattened
                        // logs are shipped) is not what the key `s.t` addresses: no predicate reads it
                        let dotted: Vec<String> = hints.keys().filter(|k| k.contains('.') || k.contains('[')).cloned().collect();
                        if !dotted.is_empty() && g.r.chance(1, 2) {
                            let name = g.r.pick(&dotted).clone();
                            let val = match hints.get(&name).and_then(|v| v.iter().find(|x| x["t"] == "pat")).cloned() {
                                Some(p) if g.r.chance(2, 3) => s_node(&g.near(&p)),
                                _ => match g.r.below(3) { 0 => s_node("x"), 1 => i_node("1"), _ => s_node(&g.word(3, true)) },
                            };
                            if let Some(kv) = pd.get_mut("kv").and_then(|k| k.as_array_mut()) {
                                if !kv.iter().any(|p| str_of(&p[0]).map(|x| x == name).unwrap_or(false)) {
                                    kv.push(json!([cps(&name), val]));
                                }
                            }
                        }
                        all_docs.push(pd);
                        dcls.push(ci);
                    }
                }
                json!({"topic":"find","oracle":true,"wt":true,"src":src,"docs":all_docs,"dcls":dcls,
                       "plan":{"tri":false,"scope":"sw","sws":[[], [true,true,true,true], [true,false,false,true], [false,true,false,false]],"find":true}})
            }
            // C17: the same rule with its operands reordered (positive positions only)
            "perm" if mode >= 7 => {
                // one field, 3-5 members whose texts come from a pool of two words, so the same text
                // appears under several kinds; every reordering must keep the verdicts
                let words = [g.word(2, true) + "a", g.word(2, true) + "b"];
                let n = 3 + g.r.below(3);
                let fam_ic = g.r.chance(1, 3);
                let mut vs: Vec<J> = vec![];
                for _ in 0..n {
                    let k = *g.r.pick(&["exact", "prefix", "suffix", "contains"]);
                    let a = g.r.pick(&words).clone();
                    let v = json!({"t":"pat","k":k,"ic": if g.r.chance(4, 5) { fam_ic } else { !fam_ic },"a":cps(&a)});
                    if !vs.contains(&v) {
                        vs.push(v);
                    }
                }
                let quant = g.r.below(4);
                let (m, c) = match quant { 0 => ("all", 0), 1 => ("of", 1 + g.r.below(vs.len())), _ => ("none", 0) };
                let mk = |vs: &Vec<J>| json!({"cond":{"t":"id","n":cps("A")},"ids":[[cps("A"),{"t":"map","es":[{"m":m,"c":c,"f":cps("f"),"v":{"t":"list","vs":vs}}]}]]});
                let src = mk(&vs);
                let mut alts = vec![];
                for _ in 0..3 {
                    let mut p = vs.clone();
                    shuffle(&mut g, &mut p);
                    alts.push(mk(&p));
                }
                let mut docs = vec![];
                for _ in 0..8 {
                    let w = g.r.pick(&words).clone();
                    let h = match g.r.below(5) { 0 => w.clone(), 1 => format!("x{}", w), 2 => format!("{}x", w), 3 => format!("x{}x", w), _ => w.to_uppercase() };
                    docs.push(obj(vec![("f".into(), s_node(&h))]));
                }
                json!({"topic":"perm","oracle":true,"wt":true,"src":src,"alts":alts,"docs":docs,
                       "plan":{"tri":false,"scope":"sw","sws":[[], [true,true,true,true]]}})
            }
            "perm" => {
                let alts: Vec<J> = (0..3).map(|_| permute_src(&mut g, &src)).collect();
                json!({"topic":"perm","oracle":false,"wt":true,"src":src,"alts":alts,"docs":docs,
                       "plan":{"tri":false,"scope":"sw","sws":[[], [true,true,true,true], [false,false,false,true], [true,true,false,false]]}})
            }
            // C08: longer quantified lists with their explicit forms
            // a quantified sequence of multi-key mappings in which one entry REPEATS another's predicates and adds more
            // (the wider entry implies the narrower one - both are entries the author wrote and both count), optimised
            // with and without coalesce / matrix
            "quant" if mode == 9 && g.r.chance(1, 2) => {
                let px = |a: &str| json!({"t":"pat","k":"exact","ic":false,"a":cps(a)});
                let ent = |f: &str, v: J| json!({"m":"none","c":0,"f":cps(f),"v":v});
                let mut rows = vec![
                    json!({"t":"map","es":[ent("f", px("x")), ent("g", px("y"))]}),
                    json!({"t":"map","es":[ent("f", px("x")), ent("g", px("y")), ent("h", px("z"))]}),
                    json!({"t":"map","es":[ent("f", px("q")), ent("g", px("r"))]}),
                ];
                if g.r.chance(1, 2) { rows.swap(0, 1); }
                if g.r.chance(1, 3) { rows.truncate(2); }
                let n = 1 + g.r.below(2);
                let cond = if g.r.chance(1, 3) { json!({"t":"all","n":cps("A")}) } else { json!({"t":"of","n":cps("A"),"c":n}) };
                let src = json!({"cond":cond,"ids":[[cps("A"),{"t":"seq","ms":rows}]]});
                let d = |f: &str, gg: &str, h: &str| obj(vec![("f".into(), s_node(f)), ("g".into(), s_node(gg)), ("h".into(), s_node(h))]);
                let docs = vec![d("x", "y", "z"), d("x", "y", "w"), d("q", "r", "z"), d("x", "r", "z"), d("w", "w", "w")];
                json!({"topic":"quant","oracle":true,"wt":true,"src":src,"docs":docs,
                       "plan":{"tri":false,"sws":[[], [false,false,false,true], [false,true,false,true], [true,true,true,true], [true,false,false,true]]}})
            }
            "quant" => {
                let class = *g.r.pick(&["str", "str", "str", "num", "bool"]);
                let kmax = if class == "bool" { 2 } else { 6 };
                let k = 1 + g.r.below(kmax);
                let mut vs: Vec<J> = vec![];
                while vs.len() < k {
                    let v = g.scalar(class, "none");
                    if !vs.contains(&v) {
                        vs.push(v);
                    } else if class == "bool" {
                        break;
                    }
                }
                if class == "str" && !g.r.chance(g.kf_pct, 100) {
                    vs = avoid_partial_batch(vs);
                }
                // needles that nest or overlap (one member is part of another): the value that is exactly
                // the longer one holds both
                if class == "str" && k >= 2 && g.r.chance(1, 6) {
                    let base = g.word(3, true) + "ab";
                    vs = vec![json!({"t":"pat","k":"contains","ic":false,"a":cps(&base[..base.len() - 1])}),
                              json!({"t":"pat","k":"contains","ic":false,"a":cps(&base)}),
                              json!({"t":"pat","k":"contains","ic":false,"a":cps(&base[1..])})];
                    vs.truncate(k.min(3).max(2));
                }
                // patterns made of DIGITS: a number (or an array of numbers) in the document is not a text,
                // whatever its digits look like
                let digit_pats = class == "str" && k >= 2 && g.r.chance(1, 5);
                if digit_pats {
                    vs = vec![json!({"t":"pat","k":"prefix","ic":false,"a":cps("8")}), json!({"t":"pat","k":"suffix","ic":false,"a":cps("3")}),
                              json!({"t":"pat","k":"contains","ic":false,"a":cps("4")})];
                    vs.truncate(k.min(3).max(2));
                }
                let k = vs.len();
                let form = if digit_pats && g.r.chance(1, 2) { 2 } else { g.r.below(7) };
                let n = if digit_pats { 1 + g.r.below(2) as u64 } else { g.r.below(k + 2) as u64 };
                let fld = |i: usize| if form >= 3 { format!("f{}", i) } else { "f".to_string() };
                let ent = |m: &str, c: u64, f: &str, v: J| json!({"m":m,"c":c,"f":cps(f),"v":v});
                let list = json!({"t":"list","vs":vs.clone()});
                let (cond, body, mode): (J, J, &str) = match form {
                    0 => (json!({"t":"id","n":cps("A")}), json!({"t":"map","es":[ent("none", 0, "f", list)]}), "any"),
                    1 => (json!({"t":"id","n":cps("A")}), json!({"t":"map","es":[ent("all", 0, "f", list)]}), "all"),
                    2 => (json!({"t":"id","n":cps("A")}), json!({"t":"map","es":[ent("of", n, "f", list)]}), "of"),
                    3 => (json!({"t":"all","n":cps("A")}),
                          json!({"t":"seq","ms":(0..k).map(|i| json!({"t":"map","es":[ent("none", 0, &fld(i), vs[i].clone())]})).collect::<Vec<_>>()}), "all"),
                    4 => (json!({"t":"of","n":cps("A"),"c":n}),
                          json!({"t":"seq","ms":(0..k).map(|i| json!({"t":"map","es":[ent("none", 0, &fld(i), vs[i].clone())]})).collect::<Vec<_>>()}), "of"),
                    // the identifier as ONE mapping with k keys: its entries are the keys
                    5 => (json!({"t":"all","n":cps("A")}),
                          json!({"t":"map","es":(0..k).map(|i| ent("none", 0, &fld(i), vs[i].clone())).collect::<Vec<_>>()}), "all"),
                    _ => (json!({"t":"of","n":cps("A"),"c":n}),
                          json!({"t":"map","es":(0..k).map(|i| ent("none", 0, &fld(i), vs[i].clone())).collect::<Vec<_>>()}), "of"),
                };
                let src = json!({"cond":cond,"ids":[[cps("A"), body]]});
                // explicit form
                let ids: Vec<J> = (0..k).map(|i| json!([cps(&format!("M{}", i)), {"t":"map","es":[ent("none", 0, &fld(i), vs[i].clone())]}])).collect();
                let idn = |i: usize| json!({"t":"id","n":cps(&format!("M{}", i))});
                let chain = |op: &str, xs: Vec<J>| xs.into_iter().reduce(|l, r| json!({"t":op,"l":l,"r":r})).unwrap();
                let econd = match mode {
                    "any" => chain("or", (0..k).map(idn).collect()),
                    "all" => chain("and", (0..k).map(idn).collect()),
                    _ => {
                        if n == 0 {
                            chain("and", (0..k).map(|i| json!({"t":"not","e":idn(i)})).collect())
                        } else if n as usize > k {
                            json!({"t":"and","l":idn(0),"r":{"t":"not","e":idn(0)}})
                        } else {
                            let mut terms = vec![];
                            for mask in 0u32..(1 << k) {
                                if mask.count_ones() as u64 == n {
                                    let t = chain("and", (0..k).filter(|i| mask & (1 << i) != 0).map(idn).collect());
                                    terms.push(if n > 1 { json!({"t":"par","e":t}) } else { t });
                                }
                            }
                            chain("or", terms)
                        }
                    }
                };
                let alt = json!({"cond":econd,"ids":ids});
                let mut docs = vec![];
                for _ in 0..8 {
                    let mut kv = vec![];
                    let nf = if form >= 3 { k } else { 1 };
                    for i in 0..nf {
                        let hints: Vec<J> = if form >= 3 { vec![vs[i].clone()] } else { vs.clone() };
                        // of(X, 0) and its explicit form with `not` differ when SOME entries are
                        // missing (not missing = false): for n = 0 every field is present
                        if g.r.chance(1, 8) && !(mode == "of" && n == 0 && form >= 3) {
                            continue;
                        }
                        let v = if digit_pats && g.r.chance(1, 2) {
                            match g.r.below(4) {
                                0 => json!({"t":"A","vs":[i_node("80"), i_node("443")]}),
                                1 => i_node("843"),
                                2 => json!({"t":"A","vs":[i_node("80"), s_node("443")]}),
                                _ => s_node("843"),
                            }
                        } else if class == "str" && form < 3 && g.r.chance(1, 5) {
                            // an ARRAY of texts, the same member's match in more than one element: a
                            // member counts once however many elements it is found in
                            let h = g.r.pick(&hints).clone();
                            let a = g.near(&h);
                            let mut els = vec![s_node(&a), s_node(&a)];
                            if g.r.chance(1, 2) { let h2 = g.r.pick(&hints).clone(); els.push(s_node(&g.near(&h2))); }
                            // ... or elements that are NOT texts (numbers, booleans) whose text would match
                            if g.r.chance(1, 3) {
                                els = vec![i_node("1"), i_node("11"), json!({"t":"B","b":true})];
                                if g.r.chance(1, 2) { els.push(s_node(&a)); }
                            }
                            json!({"t":"A","vs":els})
                        } else if class == "str" && form < 3 && g.r.chance(1, 2) {
                            // a string containing several members' needles
                            let mut t = String::new();
                            for h in &hints {
                                if g.r.chance(1, 2) {
                                    t.push_str(&g.near(h));
                                }
                            }
                            s_node(&t)
                        } else {
                            g.kind_value(&hints)
                        };
                        kv.push((fld(i), v));
                    }
                    docs.push(obj(kv));
                }
                json!({"topic":"quant","oracle":true,"wt":true,"src":src,"alts":[alt],"docs":docs,
                       "plan":{"tri":false,"sws":[[]]}})
            }
            // C10: dotted / indexed keys and nested mappings on documents with objects and arrays
            // a CHAIN of nested blocks with one key per level (`a: {b: {c: x}}`) over documents in which an
            // outer or inner level is an ARRAY of objects: a nested block over an array means "some element
            // satisfies it" at every level - it is not the dotted key `a.b.c`
            "path" if mode == 0 => {
                let leaf = json!({"t":"pat","k":"exact","ic":false,"a":cps("x")});
                let ent = |f: &str, v: J| json!({"m":"none","c":0,"f":cps(f),"v":v});
                let deep = g.r.chance(1, 2);
                let inner = if deep { json!({"t":"map","es":[ent("c", leaf.clone())]}) } else { leaf.clone() };
                let es = vec![ent("a", json!({"t":"map","es":[ent("b", inner)]}))];
                let cond = if g.r.chance(1, 4) { json!({"t":"not","e":{"t":"id","n":cps("A")}}) } else { json!({"t":"id","n":cps("A")}) };
                let src = json!({"cond":cond,"ids":[[cps("A"),{"t":"map","es":es}]]});
                let lf = |t: &str| if deep { obj(vec![("c".into(), s_node(t))]) } else { s_node(t) };
                let arr = |vs: Vec<J>| json!({"t":"A","vs":vs});
                let docs = vec![
                    obj(vec![("a".into(), obj(vec![("b".into(), lf("x"))]))]),
                    obj(vec![("a".into(), arr(vec![obj(vec![("b".into(), lf("x"))])]))]),
                    obj(vec![("a".into(), arr(vec![obj(vec![("b".into(), lf("y"))]), obj(vec![("b".into(), lf("x"))])]))]),
                    obj(vec![("a".into(), obj(vec![("b".into(), arr(vec![lf("x")]))]))]),
                    obj(vec![("a".into(), arr(vec![obj(vec![("b".into(), arr(vec![lf("y"), lf("x")]))])]))]),
                    obj(vec![("a".into(), arr(vec![obj(vec![("b".into(), lf("y"))]), s_node("x")]))]),
                    obj(vec![("a".into(), arr(vec![]))]),
                    obj(vec![("a.b".into(), lf("x"))]),
                    obj(vec![]),
                ];
                json!({"topic":"path","oracle":true,"wt":true,"src":src,"docs":docs,
                       "plan":{"tri":true,"sws":[[], [true,true,true,true], [false,true,false,false], [true,true,false,false]],"reprs":["json","hm","own","doc","ownfind"]}})
            }
            "path" => {
                let segs = ["a", "b", "a[0]", "a[1]", "b[0]", "c"];
                let mk_path = |g: &mut G| {
                    let n = 1 + g.r.below(3);
                    (0..n).map(|_| *g.r.pick(&segs)).collect::<Vec<_>>().join(".")
                };
                let leafpat = |g: &mut G| {
                    match g.r.below(5) {
                        0 | 1 => json!({"t":"pat","k":"any","ic":false,"a":[]}),
                        2 => json!({"t":"null"}),
                        _ => json!({"t":"pat","k":"exact","ic":false,"a":cps("x")}),
                    }
                };
                let n_e = 1 + g.r.below(2);
                let mut es = vec![];
                for _ in 0..n_e {
                    let p = mk_path(&mut g);
                    let v = match g.r.below(4) {
                        0 => json!({"t":"map","es":[{"m":"none","c":0,"f":cps(&mk_path(&mut g)),"v":leafpat(&mut g)}]}),
                        _ => leafpat(&mut g),
                    };
                    es.push(json!({"m":"none","c":0,"f":cps(&p),"v":v}));
                }
                let es = dedup_entries(es);
                let cond = if g.r.chance(1, 3) { json!({"t":"not","e":{"t":"id","n":cps("A")}}) } else { json!({"t":"id","n":cps("A")}) };
                let src = json!({"cond":cond,"ids":[[cps("A"),{"t":"map","es":es}]]});
                fn tree(g: &mut G, depth: usize) -> J {
                    match g.r.below(if depth == 0 { 3 } else { 7 }) {
                        0 => s_node("x"),
                        1 => if g.r.chance(1, 2) { s_node("y") } else { json!({"t":"N"}) },
                        2 => i_node("1"),
                        3 | 4 => {
                            let mut kv = vec![];
                            for k in ["a", "b", "c"] {
                                if g.r.chance(1, 2) {
                                    kv.push((k.to_string(), tree(g, depth - 1)));
                                }
                            }
                            obj(kv)
                        }
                        _ => {
                            let n = g.r.below(3);
                            json!({"t":"A","vs":(0..n).map(|_| tree(g, depth - 1)).collect::<Vec<_>>()})
                        }
                    }
                }
                let mut docs: Vec<J> = (0..6).map(|_| {
                    let mut kv = vec![];
                    for k in ["a", "b", "c"] {
                        if g.r.chance(3, 4) {
                            kv.push((k.to_string(), tree(&mut g, 3)));
                        }
                    }
                    obj(kv)
                }).collect();
                // documents DIRECTED by the rule: every path the rule writes (an outer key joined with
                // the key inside its nested block) leads to a leaf that matches or not
                for _ in 0..3 {
                    let mut root: Vec<(String, J)> = vec![];
                    for e in es.iter() {
                        let outer = str_of(&e["f"]).unwrap_or_default();
                        let full = if e["v"]["t"] == "map" { format!("{}.{}", outer, str_of(&e["v"]["es"][0]["f"]).unwrap_or_default()) } else { outer };
                        if g.r.chance(1, 5) { continue; }
                        let leaf = match g.r.below(4) { 0 => s_node("y"), 1 => json!({"t":"N"}), _ => s_node("x") };
                        insert_path(&mut root, &full, leaf);
                    }
                    docs.push(obj_from(root));
                }
                // a member LITERALLY named like a path the rule writes (`"a.b[0]": x`, flattened logs): it is not
                // what the key addresses - alone, and next to a real path that leads elsewhere
                for e in es.iter().take(2) {
                    let outer = str_of(&e["f"]).unwrap_or_default();
                    let full = if e["v"]["t"] == "map" { format!("{}.{}", outer, str_of(&e["v"]["es"][0]["f"]).unwrap_or_default()) } else { outer.clone() };
                    if full.contains('.') || full.contains('[') {
                        docs.push(obj(vec![(full.clone(), s_node("x"))]));
                        let mut root: Vec<(String, J)> = vec![];
                        insert_path(&mut root, &full, s_node("y"));
                        root.push((full.clone(), s_node("x")));
                        docs.push(obj_from(root));
                    }
                    if e["v"]["t"] == "map" && (outer.contains('.') || outer.contains('[')) {
                        // ... also for the outer key of a nested block
                        docs.push(obj(vec![(outer.clone(), obj(vec![(str_of(&e["v"]["es"][0]["f"]).unwrap_or_default(), s_node("x"))]))]));
                    }
                }
                json!({"topic":"path","oracle":true,"wt":true,"src":src,"docs":docs,
                       "plan":{"tri":true,"sws":[[], [true,true,true,true]],"reprs":["json","hm","own","doc","ownfind"]}})
            }
            // C09: random and near-boundary 64-bit values against random constants
            // a bare YAML number above i64::MAX as the constant (serde_yaml carries it as u64; the
            // parser reads it as a float): documents hold the same value as u64, the value with
            // the same 64-bit pattern as i64 (constant - 2^64), neighbours, floats and texts
            "num" if mode == 0 => {
                let big = ["9223372036854775808", "18446744073709551615", "18446744073709551611", "10000000000000000000", "9223372036854775809"];
                let ctext = *g.r.pick(&big);
                let wrapped = format!("{}", (ctext.parse::<u128>().unwrap_or(0) as i128) - (1i128 << 64));
                let e = match g.r.below(2) {
                    0 => json!({"m":"none","c":0,"f":cps("f"),"v":{"t":"num","n":int_node(ctext)}}),
                    _ => json!({"m":"none","c":0,"f":cps("f"),"v":{"t":"list","vs":[{"t":"num","n":int_node("3")}, {"t":"num","n":int_node(ctext)}]}}),
                };
                let cond = if g.r.chance(1, 4) { json!({"t":"not","e":{"t":"id","n":cps("A")}}) } else { json!({"t":"id","n":cps("A")}) };
                let src = json!({"cond":cond,"ids":[[cps("A"),{"t":"map","es":[e]}]]});
                // float documents only next to constants that an f64 carries exactly (2^63, 10^19)
                let mut vals = vec![i_node(ctext), i_node(&wrapped), i_node("-1"), i_node("0"), i_node("3"), i_node("9223372036854775807"),
                                    i_node("-9223372036854775808"), s_node(ctext), s_node(&wrapped), i_node(*g.r.pick(&big))];
                if ctext == "9223372036854775808" || ctext == "10000000000000000000" {
                    vals.push(f_node(&format!("{}.0", ctext)));
                    vals.push(f_node("1.5"));
                }
                let docs: Vec<J> = vals.into_iter().map(|v| obj(vec![("f".into(), v)])).collect();
                json!({"topic":"num","oracle":true,"wt":true,"src":src,"docs":docs,
                       "plan":{"tri":true,"sws":[[], [true,true,true,true]]}})
            }
            // not(k) on ONE ordering comparison: true exactly when the comparison is false - also for a
            // field that is present but not comparable (a text, a boolean, an array, NaN, the other kind)
            "num" if mode == 6 => {
                let float = g.r.chance(1, 3);
                let cn = if float { flt_node("5.5") } else { int_node("5") };
                let op = *g.r.pick(&["gt", "ge", "lt", "le"]);
                let src = json!({"cond":{"t":"id","n":cps("A")},"ids":[[cps("A"),{"t":"map","es":[{"m":"not","c":0,"f":cps("f"),"v":{"t":"cmp","op":op,"n":cn}}]}]]});
                let vals = vec![s_node("x"), s_node("7"), json!({"t":"B","b":true}), json!({"t":"A","vs":[i_node("7")]}), json!({"t":"N"}),
                                json!({"t":"F","neg":false,"d":[],"fr":[],"sp":"nan"}), f_node("7.5"), i_node("7"), i_node("3"), f_node("3.5"), i_node("5")];
                let mut docs: Vec<J> = vals.into_iter().map(|v| obj(vec![("f".into(), v)])).collect();
                docs.push(obj(vec![]));
                json!({"topic":"num","oracle":true,"wt":true,"src":src,"docs":docs,
                       "plan":{"tri":true,"sws":[[], [true,true,true,true]]}})
            }
            // int() of a field that holds its number as TEXT, at the ends of the i64 range
            "num" if mode == 5 => {
                let c = *g.r.pick(&["-9223372036854775808", "9223372036854775807", "0", "-9223372036854775807"]);
                let op = *g.r.pick(&["eq", "ge", "le", "gt", "lt"]);
                let e = if g.r.chance(1, 2) { json!({"m":"int","c":0,"f":cps("f"),"v":{"t":"cmp","op":op,"n":int_node(c)}}) }
                        else { json!({"m":"int","c":0,"f":cps("f"),"v":{"t":"num","n":int_node(c)}}) };
                let cond = if g.r.chance(1, 4) { json!({"t":"not","e":{"t":"id","n":cps("A")}}) } else { json!({"t":"id","n":cps("A")}) };
                let src = json!({"cond":cond,"ids":[[cps("A"),{"t":"map","es":[e]}]]});
                let vals = vec![s_node("-9223372036854775808"), s_node("9223372036854775807"), s_node("-9223372036854775809"), s_node("9223372036854775808"),
                                s_node("0"), s_node("-0"), s_node("-1"), i_node("-9223372036854775808"), i_node("9223372036854775807"), s_node("x"), s_node("")];
                let docs: Vec<J> = vals.into_iter().map(|v| obj(vec![("f".into(), v)])).collect();
                json!({"topic":"num","oracle":true,"wt":true,"src":src,"docs":docs,
                       "plan":{"tri":true,"sws":[[], [true,true,true,true]]}})
            }
            // a LIST of plain numbers on a key: each member is compared as a number (a text "3" is not
            // the number 3, 3.0 is), also after optimisation
            "num" if mode == 4 => {
                let a = g.r.below(9) + 1;
                let b = a + 1 + g.r.below(400);
                let cond = if g.r.chance(1, 4) { json!({"t":"not","e":{"t":"id","n":cps("A")}}) } else { json!({"t":"id","n":cps("A")}) };
                let src = json!({"cond":cond,"ids":[[cps("A"),{"t":"map","es":[{"m":"none","c":0,"f":cps("f"),"v":{"t":"list","vs":[
                                 {"t":"num","n":int_node(&format!("{}", a))}, {"t":"num","n":int_node(&format!("{}", b))}]}}]}]]});
                let vals = vec![i_node(&format!("{}", a)), s_node(&format!("{}", a)), f_node(&format!("{}.0", a)), i_node(&format!("{}", b)), s_node(&format!("{}", b)),
                                f_node(&format!("{}.5", a)), json!({"t":"N"}), obj(vec![("x".into(), i_node("1"))]), json!({"t":"A","vs":[s_node(&format!("{}", b))]}), i_node("0")];
                let docs: Vec<J> = vals.into_iter().map(|v| obj(vec![("f".into(), v)])).collect();
                json!({"topic":"num","oracle":true,"wt":true,"src":src,"docs":docs,
                       "plan":{"tri":true,"sws":[[], [true,true,true,true], [false,true,false,false]]}})
            }
            // neighbouring doubles: a float constant against the doubles just below and above it (their
            // shortest decimal spellings): exactly one of < = > holds, `=` only for the same double
            "num" if mode == 3 => {
                let (c, lo, hi) = *g.r.pick(&[("0.3", "0.29999999999999993", "0.30000000000000004"), ("0.1", "0.09999999999999999", "0.10000000000000002"),
                                              ("1.0", "0.9999999999999999", "1.0000000000000002"), ("2.5", "2.4999999999999996", "2.5000000000000004")]);
                let op = *g.r.pick(&["eq", "eq", "gt", "ge", "lt", "le"]);
                let e = match g.r.below(3) {
                    0 => json!({"m":"none","c":0,"f":cps("f"),"v":{"t":"cmp","op":op,"n":flt_node(c)}}),
                    1 => json!({"m":"flt","c":0,"f":cps("f"),"v":{"t":"cmp","op":op,"n":flt_node(c)}}),
                    _ => json!({"m":"none","c":0,"f":cps("f"),"v":{"t":"num","n":flt_node(c)}}),
                };
                let cond = if g.r.chance(1, 4) { json!({"t":"not","e":{"t":"id","n":cps("A")}}) } else { json!({"t":"id","n":cps("A")}) };
                let src = json!({"cond":cond,"ids":[[cps("A"),{"t":"map","es":[e]}]]});
                let vals = vec![f_node(c), f_node(lo), f_node(hi), f_node("0.0"), f_node("3.5"),
                                json!({"t":"F","neg":false,"d":[],"fr":[],"sp":"inf"}), json!({"t":"F","neg":true,"d":[],"fr":[],"sp":"inf"})];
                let docs: Vec<J> = vals.into_iter().map(|v| obj(vec![("f".into(), v)])).collect();
                json!({"topic":"num","oracle":true,"wt":true,"src":src,"docs":docs,
                       "plan":{"tri":true,"sws":[[], [true,true,true,true]]}})
            }
            // a bare number under a str(k) key, alone and as a list member: the canonical decimal text
            // of the constant (a whole float has no ".0") against numbers and texts
            "num" if mode == 2 => {
                let c = *g.r.pick(&["2.0", "2", "2.5", "-4.0", "0.0", "1024.0", "10"]);
                let cn = if c.contains('.') { flt_node(c) } else { int_node(c) };
                let v = if g.r.chance(1, 3) {
                    // an exact TEXT that denotes the same number as some document value without being its
                    // canonical text: str() compares texts
                    json!({"t":"pat","k":"exact","ic":false,"a":cps(*g.r.pick(&["02", "+2", "2.0", "-04", "00", "2e0", " 2"]))})
                } else if g.r.chance(1, 2) { json!({"t":"num","n":cn}) } else { json!({"t":"list","vs":[{"t":"num","n":cn}, {"t":"pat","k":"exact","ic":false,"a":cps("zz")}]}) };
                let cond = if g.r.chance(1, 4) { json!({"t":"not","e":{"t":"id","n":cps("A")}}) } else { json!({"t":"id","n":cps("A")}) };
                let src = json!({"cond":cond,"ids":[[cps("A"),{"t":"map","es":[{"m":"str","c":0,"f":cps("f"),"v":v}]}]]});
                let whole = c.trim_end_matches(".0");
                let as_float = if whole.contains('.') { whole.to_string() } else { format!("{}.0", whole) };
                let vals = vec![f_node(&as_float), i_node(if whole.contains('.') { "2" } else { whole }), s_node(whole), s_node(&as_float),
                                s_node(c), f_node("2.5"), s_node("2.5"), i_node("2"), s_node("zz"), json!({"t":"B","b":true}),
                                i_node("-4"), i_node("0"), s_node("02"), s_node("+2")];
                let docs: Vec<J> = vals.into_iter().map(|v| obj(vec![("f".into(), v)])).collect();
                json!({"topic":"num","oracle":true,"wt":true,"src":src,"docs":docs,
                       "plan":{"tri":true,"sws":[[], [true,true,true,true]]}})
            }
            // one field under an int() cast AND un-cast in the rows of a matrix-shaped sequence: a cell sees the
            // field's own value (numeric TEXT stays text for the un-cast cells), whatever another cell did with it
            "num" if mode == 7 && g.r.chance(1, 2) => {
                let ent = |m: &str, f: &str, v: J| json!({"m":m,"c":0,"f":cps(f),"v":v});
                let px = |t: &str| json!({"t":"pat","k":"exact","ic":false,"a":cps(t)});
                let mut rows = vec![
                    json!({"t":"map","es":[ent("int", "size", json!({"t":"num","n":int_node("5")})), ent("none", "g", px("x"))]}),
                    json!({"t":"map","es":[ent("none", "size", json!({"t":"num","n":int_node("7")})), ent("none", "g", px("x"))]}),
                    json!({"t":"map","es":[ent("none", "size", json!({"t":"cmp","op":"gt","n":int_node("100")})), ent("none", "g", px("x"))]}),
                    json!({"t":"map","es":[ent("flt", "size", json!({"t":"cmp","op":"lt","n":flt_node("0.5")})), ent("none", "g", px("x"))]}),
                ];
                if g.r.chance(1, 2) { rows.swap(0, 1); }
                if g.r.chance(1, 2) { rows.truncate(3); }
                let cond = if g.r.chance(1, 4) { json!({"t":"not","e":{"t":"id","n":cps("A")}}) } else { json!({"t":"id","n":cps("A")}) };
                let src = json!({"cond":cond,"ids":[[cps("A"),{"t":"seq","ms":rows}]]});
                let vals = vec![s_node("7"), i_node("7"), s_node("5"), i_node("5"), s_node("200"), i_node("200"), s_node("0.25"), f_node("0.25"), s_node("x"), json!({"t":"B","b":true})];
                let mut docs: Vec<J> = vals.into_iter().map(|v| obj(vec![("size".into(), v), ("g".into(), s_node("x"))])).collect();
                docs.push(obj(vec![("g".into(), s_node("x"))]));
                json!({"topic":"num","oracle":true,"wt":true,"src":src,"docs":docs,
                       "plan":{"tri":true,"sws":[[], [true,true,true,true], [false,false,false,true], [true,false,false,true]]}})
            }
            // ONE cast key evaluated on SEVERAL objects within one match: a nested block over an array of objects, or the same
            // key at the top level and inside a nested block; the numbers are TEXTS (each object's own text is converted)
            "num" if mode == 1 && g.r.chance(1, 3) => {
                let m = *g.r.pick(&["int", "flt"][..]);
                let cmp = |op: &str, n: &str| json!({"t":"cmp","op":op,"n":int_node(n)});
                let cast_ent = |op: &str, n: &str| json!({"m":m,"c":0,"f":cps("pid"),"v":cmp(op, n)});
                let o = |v: J| obj(vec![("pid".into(), v)]);
                let (src, docs) = if g.r.chance(1, 2) {
                    let src = json!({"cond":{"t":"id","n":cps("A")},
                                     "ids":[[cps("A"),{"t":"map","es":[{"m":"none","c":0,"f":cps("procs"),"v":{"t":"map","es":[cast_ent("gt", "100")]}}]}]]});
                    let arr = |vs: Vec<J>| obj(vec![("procs".into(), json!({"t":"A","vs":vs}))]);
                    (src, vec![arr(vec![o(s_node("50")), o(s_node("500"))]), arr(vec![o(s_node("500")), o(s_node("50"))]),
                               arr(vec![o(i_node("50")), o(s_node("500"))]), arr(vec![o(s_node("50")), o(s_node("70"))]),
                               arr(vec![o(s_node("x")), o(s_node("500"))]), obj(vec![("procs".into(), o(s_node("500")))])])
                } else {
                    let src = json!({"cond":{"t":"id","n":cps("A")},
                                     "ids":[[cps("A"),{"t":"map","es":[cast_ent("gt", "100"),
                                             {"m":"none","c":0,"f":cps("p"),"v":{"t":"map","es":[cast_ent("lt", "100")]}}]}]]});
                    let d = |a: &str, b: &str| obj(vec![("pid".into(), s_node(a)), ("p".into(), o(s_node(b)))]);
                    (src, vec![d("500", "50"), d("50", "500"), d("500", "500"), d("50", "50"), d("500", "x")])
                };
                json!({"topic":"num","oracle":true,"wt":true,"src":src,"docs":docs,
                       "plan":{"tri":true,"sws":[[], [true,true,true,true], [false,false,false,true]]}})
            }
            // str(f) == str(g) in the condition: the decimal text of every integer kind
            "num" if mode == 1 => {
                let op = "eq";
                let src = json!({"cond":{"t":"cmp","op":op,"l":{"t":"cast","k":"str","f":cps("f")},"r":{"t":"cast","k":"str","f":cps("g")}},
                                 "ids":[[cps("A"),{"t":"map","es":[{"m":"none","c":0,"f":cps("h"),"v":{"t":"pat","k":"any","ic":false,"a":[]}}]}]]});
                let pool = ["18446744073709551615", "9223372036854775808", "9223372036854775807", "-9223372036854775808", "-1", "0", "7"];
                let mut docs = vec![];
                for _ in 0..8 {
                    let a = *g.r.pick(&pool);
                    let b = if g.r.chance(2, 3) { a } else { *g.r.pick(&pool) };
                    let fv = if g.r.chance(3, 4) { i_node(a) } else { s_node(a) };
                    let gv = if g.r.chance(1, 2) { i_node(b) } else { s_node(b) };
                    docs.push(obj(vec![("f".into(), fv), ("g".into(), gv)]));
                }
                // floats whose TEXTS differ although the values compare equal (0 and -0), or are equal
                // although the values do not (NaN and NaN): str() compares the canonical text
                let z = |neg: bool| json!({"t":"F","neg":neg,"d":[],"fr":[],"sp":""});
                let nan = json!({"t":"F","neg":false,"d":[],"fr":[],"sp":"nan"});
                docs.push(obj(vec![("f".into(), z(false)), ("g".into(), z(true))]));
                docs.push(obj(vec![("f".into(), nan.clone()), ("g".into(), nan)]));
                docs.push(obj(vec![("f".into(), f_node("1.5")), ("g".into(), f_node("1.5"))]));
                // both fields PRESENT and without a text form (null, array, object): not convertible, the comparison is false
                let notext = [json!({"t":"N"}), json!({"t":"A","vs":[i_node("1")]}), json!({"t":"O","kv":[]}), json!({"t":"A","vs":[]})];
                for a in notext.iter() {
                    docs.push(obj(vec![("f".into(), a.clone()), ("g".into(), a.clone())]));
                }
                docs.push(obj(vec![("f".into(), notext[0].clone()), ("g".into(), notext[1].clone())]));
                docs.push(obj(vec![("f".into(), notext[0].clone()), ("g".into(), s_node(""))]));
                json!({"topic":"num","oracle":true,"wt":true,"src":src,"docs":docs,
                       "plan":{"tri":true,"sws":[[], [true,true,true,true]]}})
            }
            "num" => {
                let float = g.r.chance(1, 3);
                let ctext = if float { g.flt_text() } else if g.r.chance(1, 2) { g.int_text() } else { format!("{}", g.r.next() as i64) };
                let cn = if float { flt_node(&ctext) } else { int_node(&ctext) };
                let op = *g.r.pick(&["eq", "gt", "ge", "lt", "le"]);
                let form = g.r.below(6);
                let cast = if float { "flt" } else { "int" };
                let nonneg = !ctext.starts_with('-');
                let src = match form {
                    0 => json!({"cond":{"t":"id","n":cps("A")},"ids":[[cps("A"),{"t":"map","es":[{"m":"none","c":0,"f":cps("f"),"v":{"t":"cmp","op":op,"n":cn}}]}]]}),
                    1 => json!({"cond":{"t":"id","n":cps("A")},"ids":[[cps("A"),{"t":"map","es":[{"m":"none","c":0,"f":cps("f"),"v":{"t":"num","n":cn}}]}]]}),
                    2 => json!({"cond":{"t":"id","n":cps("A")},"ids":[[cps("A"),{"t":"map","es":[{"m":cast,"c":0,"f":cps("f"),"v":{"t":"cmp","op":op,"n":cn}}]}]]}),
                    5 => {
                        // the comparison as a member of a list (the list branch of the parser)
                        let other = if float { json!({"t":"cmp","op":"lt","n":flt_node("-1024.5")}) } else { json!({"t":"cmp","op":"lt","n":int_node("-9223372036854775807")}) };
                        let m = if g.r.chance(1, 3) { cast } else { "none" };
                        json!({"cond":{"t":"id","n":cps("A")},"ids":[[cps("A"),{"t":"map","es":[{"m":m,"c":0,"f":cps("f"),"v":{"t":"list","vs":[other, {"t":"cmp","op":op,"n":cn}]}}]}]]})
                    }
                    3 if nonneg => json!({"cond":{"t":"cmp","op":op,"l":{"t":"cast","k":cast,"f":cps("f")},"r":{"t":"const","n":cn}},
                                          "ids":[[cps("A"),{"t":"map","es":[{"m":"none","c":0,"f":cps("g"),"v":{"t":"pat","k":"any","ic":false,"a":[]}}]}]]}),
                    _ => json!({"cond":{"t":"not","e":{"t":"id","n":cps("A")}},"ids":[[cps("A"),{"t":"map","es":[{"m":"none","c":0,"f":cps("f"),"v":{"t":"cmp","op":op,"n":cn}}]}]]}),
                };
                let mut docs = vec![];
                for _ in 0..10 {
                    let v = if float {
                        match g.r.below(6) {
                            0 => f_node(&ctext),
                            1 => f_node(&g.flt_text()),
                            2 => i_node(&g.int_text()),
                            3 => s_node(&ctext),
                            4 => json!({"t":"F","neg":g.r.chance(1,2),"d":[],"fr":[],"sp":*g.r.pick(&["nan","inf"])}),
                            _ => f_node(&g.flt_text()),
                        }
                    } else {
                        let base: i128 = ctext.parse().unwrap_or(0);
                        let near = base + [0i128, 1, -1, 2, -2][g.r.below(5)];
                        match g.r.below(8) {
                            0 | 1 if near >= i64::MIN as i128 && near <= u64::MAX as i128 => i_node(&near.to_string()),
                            2 => i_node(&g.uint_text()),
                            3 => i_node(&format!("{}", g.r.next() as i64)),
                            4 => i_node(&format!("{}", g.r.next())),
                            5 if near >= i64::MIN as i128 && near <= i64::MAX as i128 => s_node(&near.to_string()),
                            6 => f_node(&g.flt_text()),
                            _ => i_node(&g.int_text()),
                        }
                    };
                    docs.push(obj(vec![("f".into(), v)]));
                }
                json!({"topic":"num","oracle":true,"wt":true,"src":src,"docs":docs,
                       "plan":{"tri":true,"sws":[[], [true,true,true,true]]}})
            }
            // C07: one field, long strings, multi-byte characters, lists of 1-5 patterns
            // str(f) == str(g) in the condition compares the two texts EXACTLY (it is not a pattern:
            // neither the i prefix nor the ignore_case build applies to it)
            "str" if mode == 0 && g.r.chance(1, 3) => {
                let src = json!({"cond":{"t":"cmp","op":"eq","l":{"t":"cast","k":"str","f":cps("f")},"r":{"t":"cast","k":"str","f":cps("g")}},
                                 "ids":[[cps("A"),{"t":"map","es":[{"m":"none","c":0,"f":cps("h"),"v":{"t":"pat","k":"any","ic":false,"a":[]}}]}]]});
                let pool = ["Ab", "ab", "AB", "aB", "x", "", "é", "É"];
                let docs: Vec<J> = (0..8).map(|_| {
                    let a = *g.r.pick(&pool);
                    let b = if g.r.chance(1, 3) { a } else { *g.r.pick(&pool) };
                    obj(vec![("f".into(), s_node(a)), ("g".into(), s_node(b))])
                }).collect();
                json!({"topic":"str","oracle":true,"wt":true,"src":src,"docs":docs,
                       "plan":{"tri":false,"sws":[[], [true,true,true,true]]}})
            }
            // booleans and numbers under a str() cast are compared as their exact canonical text - they are
            // not string PATTERNS, so neither the i prefix nor the ignore_case build folds them - next to
            // real patterns on the same field (a list, or or-ed identifiers that shake regroups)
            "str" if mode == 2 && g.r.chance(1, 2) => {
                g.own_docs = None;
                let fv = if g.r.chance(2, 3) { 3 } else { 4 };
                let src = g.flag_mix_variant(fv);
                let docs = g.own_docs.take().unwrap_or_default();
                json!({"topic":"str","oracle":true,"wt":true,"src":src,"docs":docs,
                       "plan":{"tri":false,"sws":[[], [true,true,true,true], [false,true,false,false]]}})
            }
            "str" if mode == 1 && g.r.chance(1, 2) => {
                let lit = match g.r.below(3) { 0 => json!({"t":"bool","b":true}), 1 => json!({"t":"bool","b":false}), _ => json!({"t":"num","n":int_node("7")}) };
                let p1 = json!({"t":"pat","k":*g.r.pick(&["prefix", "exact", "contains"]),"ic":false,"a":cps(*g.r.pick(&["x", "tr", "fa"]))});
                let p2 = json!({"t":"pat","k":"suffix","ic":false,"a":cps("z")});
                let ent = |v: J| json!({"m":"str","c":0,"f":cps("f"),"v":v});
                let src = if g.r.chance(1, 2) {
                    json!({"cond":{"t":"id","n":cps("A")},"ids":[[cps("A"),{"t":"map","es":[ent(json!({"t":"list","vs":[lit, p1, p2]}))]}]]})
                } else {
                    json!({"cond":{"t":"or","l":{"t":"or","l":{"t":"id","n":cps("A")},"r":{"t":"id","n":cps("B")}},"r":{"t":"id","n":cps("C")}},
                           "ids":[[cps("A"),{"t":"map","es":[ent(lit)]}],[cps("B"),{"t":"map","es":[ent(p1)]}],[cps("C"),{"t":"map","es":[ent(p2)]}]]})
                };
                let vals = vec![s_node("TRUE"), s_node("True"), s_node("true"), s_node("FALSE"), s_node("false"), json!({"t":"B","b":true}),
                                json!({"t":"B","b":false}), s_node("7"), i_node("7"), s_node("Xy"), s_node("qZ"), s_node("TRx")];
                let docs: Vec<J> = vals.into_iter().map(|v| obj(vec![("f".into(), v)])).collect();
                json!({"topic":"str","oracle":true,"wt":true,"src":src,"docs":docs,
                       "plan":{"tri":false,"sws":[[], [true,true,true,true], [false,true,false,false], [true,true,false,false]]}})
            }
            "str" => {
                let n = 1 + g.r.below(5);
                // members of one list usually share a batch class (kind family and case flag), so
                // that Aho-Corasick batches and RegexSets of every flavour are common
                let fam_ic = g.r.chance(1, 2);
                let fam_regex = g.r.chance(1, 3);
                let pats: Vec<J> = (0..n).map(|_| {
                    let mut p = g.pattern(true);
                    if g.r.chance(2, 3) {
                        for _ in 0..12 {
                            if (p["k"] == "regex") == fam_regex && p["k"] != "any" { break; }
                            p = g.pattern(true);
                        }
                        p["ic"] = json!(fam_ic);
                    }
                    p
                }).collect();
                let v = if n == 1 && g.r.chance(1, 2) { pats[0].clone() } else { json!({"t":"list","vs":pats.clone()}) };
                let ent = |p: &J| json!({"t":"map","es":[{"m":"none","c":0,"f":cps("f"),"v":p.clone()}]});
                let src = match g.r.below(5) {
                    // the same patterns as SEPARATE predicates on the one field: a sequence of
                    // mappings, or one identifier each combined by `or` - the optimiser regroups them
                    0 if n >= 2 => json!({"cond":{"t":"id","n":cps("A")},"ids":[[cps("A"),{"t":"seq","ms":pats.iter().map(|p| ent(p)).collect::<Vec<_>>()}]]}),
                    1 if n >= 2 => {
                        let ids: Vec<J> = pats.iter().enumerate().map(|(i, p)| json!([cps(IDENTS[i]), ent(p)])).collect();
                        let cond = (0..n).map(|i| json!({"t":"id","n":cps(IDENTS[i])})).reduce(|l, r| json!({"t":"or","l":l,"r":r})).unwrap();
                        json!({"cond":cond,"ids":ids})
                    }
                    _ => json!({"cond":{"t":"id","n":cps("A")},"ids":[[cps("A"),{"t":"map","es":[{"m":"none","c":0,"f":cps("f"),"v":v}]}]]}),
                };
                let mut docs = vec![];
                for _ in 0..8 {
                    let p = g.r.pick(&pats).clone();
                    let mut h = g.near(&p);
                    if g.r.chance(1, 4) {
                        let extra = g.word(20, false);
                        h = if g.r.chance(1, 2) { format!("{}{}", extra, h) } else { format!("{}{}", h, extra) };
                    }
                    docs.push(obj(vec![("f".into(), s_node(&h))]));
                }
                docs.push(obj(vec![("f".into(), json!({"t":"A","vs":[s_node(&g.word(3, false)), s_node(&g.near(&pats[0]))]}))]));
                json!({"topic":"str","oracle":true,"wt":true,"src":src,"docs":docs,
                       "plan":{"tri":false,"sws":[[], [true,true,true,true], [false,true,false,false], [false,false,true,false]]}})
            }
            // C01: every switch combination
            "opt" => { let reopt = g.r.chance(1, 5);
                       json!({"topic":"opt","oracle":true,"wt":true,"src":src,"docs":docs,
                            "plan":{"tri":false,"sws":all17,"eng":true,"reopt":reopt}}) }
            // C03: accepted rules never panic: all switches, adversarial documents, validate
            "adv" if mode == 9 => {
                // keys with stray brackets: they load (an identifier token may hold [ and ] anywhere) and must then be
                // matched - Object::find has to cope with `]` before `[`, doubled and empty brackets, on every document
                let keys = ["a]b[0]", "args][0]", "x[0].y]z[1]", "a[0]]", "arr[[0]]", "arr[0][", "arr]", "arr[", "s.t]x[0]", "arr[1]x", "o.]["];
                let k = *g.r.pick(&keys[..]);
                let k2 = *g.r.pick(&keys[..]);
                let src = json!({"cond":{"t":"or","l":{"t":"id","n":cps("A")},"r":{"t":"not","e":{"t":"id","n":cps("B")}}},
                                 "ids":[[cps("A"),{"t":"map","es":[{"m":"none","c":0,"f":cps(k),"v":{"t":"pat","k":"any","ic":false,"a":[]}}]}],
                                        [cps("B"),{"t":"map","es":[{"m":"int","c":0,"f":cps(k2),"v":{"t":"cmp","op":"ge","n":int_node("0")}}]}]]});
                json!({"topic":"adv","oracle":false,"wt":false,"src":src,"docs":docs,"tps":[],"tns":[],
                       "plan":{"tri":false,"sws":all17,"adv":true,"validate":true}})
            }
            "adv" => {
                let mut tps = vec![];
                let mut tns = vec![];
                for i in 0..docs.len().min(2) {
                    if g.r.chance(1, 2) { tps.push(json!({"d":i})); } else { tns.push(json!({"d":i})); }
                }
                if g.r.chance(1, 3) {
                    let raw = match g.r.below(4) {
                        0 => json!({"t":"S","s":cps("not a mapping")}),
                        1 => json!({"t":"N"}),
                        2 => json!({"t":"A","vs":[]}),
                        _ => json!({"t":"I","neg":false,"d":[1]}),
                    };
                    if g.r.chance(1, 2) { tps.push(json!({"raw":raw})); } else { tns.push(json!({"raw":raw})); }
                }
                json!({"topic":"adv","oracle":true,"wt":true,"src":src,"docs":docs,"tps":tps,"tns":tns,
                       "plan":{"tri":false,"sws":all17,"adv":true,"validate":true}})
            }
            // C12: repeats, prints, threads
            "pure" => json!({"topic":"pure","oracle":true,"wt":true,"src":src,"docs":docs,
                             "plan":{"tri":false,"scope":"sw","sws":some_sws,"expr":true,"repeat":3,"threads":4,"again":true,"reopt":true,"via_file":true,
                                     "lockstep": if shape == 2 || shape == 3 || g.r.chance(1, 8) { 16 } else { 0 }}}),
            // C13: validate() against the rule's own examples
            "val" => {
                // a FLAT spelling of some documents: a nested object `s: {t: v}` written as the one
                // literal key "s.t" - a different document, in which the path s.t does not resolve
                let mut docs = docs;
                let flat: Vec<J> = docs.iter().filter_map(|d| {
                    let kv = d["kv"].as_array()?;
                    let mut out = vec![];
                    let mut changed = false;
                    for p in kv {
                        if p[1]["t"] == "O" && !p[1]["kv"].as_array().map(|a| a.is_empty()).unwrap_or(true) {
                            for q in p[1]["kv"].as_array().unwrap() {
                                let k = format!("{}.{}", str_of(&p[0]).ok()?, str_of(&q[0]).ok()?);
                                out.push(json!([cps(&k), q[1]]));
                            }
                            changed = true;
                        } else {
                            out.push(p.clone());
                        }
                    }
                    if changed { Some(json!({"t":"O","kv":out})) } else { None }
                }).take(2).collect();
                docs.extend(flat);
                // a MERGE-KEY spelling: all members moved under the key `<<` (what YAML 1.1 calls a merge
                // key; serde_yaml keeps it as an ordinary member unless asked to apply it) - a different
                // document, on which none of the rule's fields resolves; sometimes one member stays outside
                let merged: Vec<J> = docs.iter().filter_map(|d| {
                    let kv = d["kv"].as_array()?;
                    if kv.is_empty() || kv.iter().any(|p| str_of(&p[0]).map(|k| k == "<<").unwrap_or(true)) { return None; }
                    let keep = if kv.len() > 1 && g.r.chance(1, 2) { 1 } else { 0 };
                    let mut out: Vec<J> = kv[..keep].to_vec();
                    out.push(json!([cps("<<"), {"t":"O","kv":kv[keep..].to_vec()}]));
                    Some(json!({"t":"O","kv":out}))
                }).take(2).collect();
                docs.extend(merged);
                let mut tps = vec![];
                let mut tns = vec![];
                for i in 0..docs.len() {
                    match g.r.below(3) {
                        0 => tps.push(json!({"d":i})),
                        1 => tns.push(json!({"d":i})),
                        _ => {}
                    }
                }
                if g.r.chance(1, 6) {
                    let raw = match g.r.below(4) {
                        0 => json!({"t":"S","s":cps("not a mapping")}),
                        1 => json!({"t":"N"}),
                        2 => match g.r.below(4) {
                            0 => json!({"t":"A","vs":[]}),                                         // `- []`
                            1 => json!({"t":"A","vs":[{"kv":[[cps("f"),{"t":"S","s":cps("x")}]],"t":"O"}]}),   // a list holding a mapping
                            2 => json!({"t":"A","vs":[{"t":"A","vs":[]}]}),
                            _ => json!({"t":"A","vs":[{"t":"S","s":cps("x")}]}),
                        },
                        _ => json!({"t":"B","b":true}),
                    };
                    if g.r.chance(1, 2) { tps.push(json!({"raw":raw})); } else { tns.push(json!({"raw":raw})); }
                }
                // the lists are independent: the same document may stand in both, or twice in one
                if !docs.is_empty() && g.r.chance(1, 4) {
                    let i = g.r.below(docs.len());
                    tps.push(json!({"d":i,"nomark":true}));
                    tns.push(json!({"d":i,"nomark":true}));
                    if g.r.chance(1, 3) { tps.push(json!({"d":i,"nomark":true})); }
                }
                json!({"topic":"val","oracle":true,"wt":true,"src":src,"docs":docs,"tps":tps,"tns":tns,
                       "plan":{"tri":false,"scope":"sw","sws":[[], [true,true,true,true], [false,true,false,true]],"validate":true}})
            }
            // C14: serialise and reload, before and after optimisation
            "ser" => {
                // identifier names are case-sensitive: a rule may define `A` and `a`
                let mut src = src;
                if g.r.chance(1, 4) {
                    let names: Vec<String> = src["ids"].as_array().map(|a| a.iter().filter_map(|p| str_of(&p[0]).ok()).collect()).unwrap_or_default();
                    if names.len() >= 2 {
                        let keep = names[0].clone();
                        let variant = if keep.to_lowercase() != keep { keep.to_lowercase() } else { keep.to_uppercase() };
                        if variant != keep && !names.contains(&variant) {
                            rename_ident(&mut src, &names[1], &variant);
                        }
                    }
                }
                let tps: Vec<J> = (0..docs.len().min(2)).map(|i| json!({"d":i})).collect();
                {
                    // one case in ten: the TEXT repeats its first identifier key (see run.rs, `dupid`)
                    let dup = g.r.chance(1, 10);
                    let mut c = json!({"topic":"ser","oracle":true,"wt":!dup,"dupid":dup,"src":src,"docs":docs,"tps":tps,"tns":[],
                           "plan":{"tri":false,"scope":"sw","sws":[[], [true,true,true,true]],"ser":true,"via_value":!dup}});
                    // one case in eight: a SPELLING of the text that YAML reads as the same value - an explicit null for the
                    // empty example list, an extra unreferenced identifier whose name is a number / boolean / null scalar, a
                    // document-start marker, a comment, an anchor and alias on an example (see run.rs, `spell`): the value path
                    // loads the value that this very text parses to, and both paths must agree (C14, second sentence)
                    if !dup && g.r.chance(1, 8) {
                        c["spell"] = json!(*g.r.pick(&["nullex", "numid", "boolid", "nullid", "docstart", "comment", "fltid", "mergeid"][..]));
                        c["wt"] = json!(false);
                    }
                    c
                }
            }
            // C11: every representation of the same logical document
            // a FLAT-TABLE document: rules whose keys are dotted paths to scalar leaves (no nested
            // mappings, no indices), documents that are nested objects with scalar leaves - the flat
            // table (every leaf under its full path) is one more representation of the same content
            // paths whose steps meet the "other" container: a numeric NAME on an array (`t.0`), an index on
            // an object (`t[0]`), a name on an array - every representation must call them missing alike
            "repr" if mode == 5 => {
                let key = *g.r.pick(&["t.0", "t[0]", "t.x", "t.0.x", "t[1].x"]);
                let v = if g.r.chance(1, 3) { json!({"t":"pat","k":"any","ic":false,"a":[]}) } else { json!({"t":"pat","k":"exact","ic":false,"a":cps("x")}) };
                let cond = if g.r.chance(1, 3) { json!({"t":"not","e":{"t":"id","n":cps("A")}}) } else { json!({"t":"id","n":cps("A")}) };
                let src = json!({"cond":cond,"ids":[[cps("A"),{"t":"map","es":[{"m":"none","c":0,"f":cps(key),"v":v}]}]]});
                let tvals = vec![json!({"t":"A","vs":[s_node("x"), s_node("y")]}), obj(vec![("0".into(), s_node("x"))]), obj(vec![("x".into(), s_node("x"))]),
                                 s_node("x"), json!({"t":"A","vs":[obj(vec![("x".into(), s_node("x"))]), obj(vec![("x".into(), s_node("x"))])]}),
                                 obj(vec![("0".into(), obj(vec![("x".into(), s_node("x"))]))]), json!({"t":"A","vs":[]})];
                let docs: Vec<J> = tvals.into_iter().map(|t| obj(vec![("t".into(), t)])).collect();
                json!({"topic":"repr","oracle":true,"wt":true,"src":src,"docs":docs,
                       "plan":{"tri":false,"scope":"sw","sws":[[], [true,true,true,true]],
                               "reprs":["json","jsontext","yamltext","hm","own","doc","ownfind"]}})
            }
            // values at the edge of what a representation carries: texts that end in a line break
            // (under end-sensitive patterns), floats that are not finite (serde_json cannot carry them;
            // every other representation must keep them floats)
            "repr" if mode == 6 => {
                let cond = if g.r.chance(1, 3) { json!({"t":"not","e":{"t":"id","n":cps("A")}}) } else { json!({"t":"id","n":cps("A")}) };
                if g.r.chance(1, 3) {
                    // TEXT values spelled like YAML 1.1 booleans, nulls and numbers: a string stays a string in every representation
                    let words = ["yes", "no", "on", "off", "NO", "On", "YES", "y", "n", "true", "True", "null", "~", "1", "1.0", "0x10", "1e3", ".inf", ""];
                    let w = *g.r.pick(&words[..]);
                    let v = match g.r.below(4) {
                        0 => json!({"t":"pat","k":"exact","ic":false,"a":cps(w)}),
                        1 => json!({"t":"pat","k":"exact","ic":true,"a":cps(w)}),
                        2 => json!({"t":"pat","k":"any","ic":false,"a":[]}),
                        _ => json!({"t":"pat","k":"prefix","ic":false,"a":cps(&w.chars().take(1).collect::<String>())}),
                    };
                    let src = json!({"cond":cond,"ids":[[cps("A"),{"t":"map","es":[{"m":"none","c":0,"f":cps("f"),"v":v}]}]]});
                    let docs: Vec<J> = words.iter().map(|t| obj(vec![("f".into(), s_node(t))])).collect();
                    json!({"topic":"repr","oracle":true,"wt":true,"src":src,"docs":docs,
                           "plan":{"tri":false,"scope":"sw","sws":[[], [true,true,true,true]],
                                   "reprs":["json","jsontext","yamltext","hm","own","doc","ownfind"]}})
                } else if g.r.chance(1, 2) {
                    let v = match g.r.below(4) {
                        0 => json!({"t":"pat","k":"exact","ic":false,"a":cps("x")}),
                        1 => json!({"t":"pat","k":"suffix","ic":false,"a":cps("x")}),
                        2 => json!({"t":"pat","k":"exact","ic":false,"a":cps("x\n")}),
                        _ => json!({"t":"pat","k":"suffix","ic":true,"a":cps("ax")}),
                    };
                    let src = json!({"cond":cond,"ids":[[cps("A"),{"t":"map","es":[{"m":"none","c":0,"f":cps("f"),"v":v}]}]]});
                    let docs: Vec<J> = ["x\n", "x", "ax\n", "x\n\n", "AX", "\nx", "x\r\n", "ax \n"].iter().map(|t| obj(vec![("f".into(), s_node(t))])).collect();
                    json!({"topic":"repr","oracle":true,"wt":true,"src":src,"docs":docs,
                           "plan":{"tri":false,"scope":"sw","sws":[[], [true,true,true,true]],
                                   "reprs":["json","jsontext","yamltext","hm","own","doc","ownfind"]}})
                } else {
                    let e = match g.r.below(5) {
                        0 => json!({"m":"none","c":0,"f":cps("f"),"v":{"t":"cmp","op":"gt","n":int_node("1")}}),
                        1 => json!({"m":"none","c":0,"f":cps("f"),"v":{"t":"null"}}),
                        2 => json!({"m":"flt","c":0,"f":cps("f"),"v":{"t":"cmp","op":"lt","n":flt_node("0.5")}}),
                        3 => json!({"m":"none","c":0,"f":cps("f"),"v":{"t":"cmp","op":"le","n":flt_node("2.5")}}),
                        _ => json!({"m":"none","c":0,"f":cps("f"),"v":{"t":"cmp","op":"lt","n":int_node("0")}}),
                    };
                    let src = json!({"cond":cond,"ids":[[cps("A"),{"t":"map","es":[e]}]]});
                    let sp = |neg: bool, k: &str| json!({"t":"F","neg":neg,"d":[],"fr":[],"sp":k});
                    let vals = vec![sp(false, "inf"), sp(true, "inf"), sp(false, "nan"), f_node("2.5"), json!({"t":"N"}), i_node("3"),
                                    json!({"t":"A","vs":[sp(false, "inf"), f_node("0.25")]})];
                    let docs: Vec<J> = vals.into_iter().map(|v| obj(vec![("f".into(), v)])).collect();
                    json!({"topic":"repr","oracle":true,"wt":true,"src":src,"docs":docs,
                           "plan":{"tri":false,"scope":"sw","sws":[[], [true,true,true,true]],
                                   "reprs":["yamltext","hm","own","doc","ownfind"]}})
                }
            }
            "repr" if mode == 3 || mode == 4 => {
                let paths = ["p.q", "r", "s.t.u", "p.v"];
                let n = 1 + g.r.below(3);
                let mut es = vec![];
                for i in 0..n {
                    let v = if g.r.chance(1, 4) { json!({"t":"cmp","op":"ge","n":int_node("5")}) } else { g.pattern(false) };
                    es.push(json!({"m":"none","c":0,"f":cps(paths[i]),"v":v}));
                }
                let cond = if g.r.chance(1, 3) { json!({"t":"not","e":{"t":"id","n":cps("A")}}) } else { json!({"t":"id","n":cps("A")}) };
                let src = json!({"cond":cond,"ids":[[cps("A"),{"t":"map","es":es.clone()}]]});
                let mut docs = vec![];
                for _ in 0..6 {
                    let mut root: Vec<(String, J)> = vec![];
                    for e in &es {
                        if g.r.chance(1, 4) { continue; }
                        let path = str_of(&e["f"]).unwrap_or_default();
                        let leaf = if e["v"]["t"] == "cmp" { i_node(*g.r.pick(&["4", "5", "7"])) }
                                   else if g.r.chance(1, 5) { i_node("3") } else { s_node(&g.near(&e["v"])) };
                        insert_path(&mut root, &path, leaf);
                    }
                    docs.push(obj_from(root));
                }
                json!({"topic":"repr","oracle":true,"wt":true,"src":src,"docs":docs,
                       "plan":{"tri":false,"scope":"sw","sws":[[], [true,true,true,true]],
                               "reprs":["json","hm","own","doc","ownfind","flatdoc"]}})
            }
            "repr" if mode < 3 => {
                // numeric predicates against 64-bit boundary values: representations differ most in
                // how they carry integers (i64 / u64 / f64)
                let ctext = match g.r.below(4) { 0 => "1".to_string(), 1 => "9223372036854775807".to_string(), 2 => "-1".to_string(), _ => g.int_text() };
                let op = *g.r.pick(&["eq", "gt", "ge", "lt", "le"]);
                let v = match g.r.below(4) {
                    0 => json!({"m":"none","c":0,"f":cps("f"),"v":{"t":"cmp","op":op,"n":int_node(&ctext)}}),
                    1 => json!({"m":"str","c":0,"f":cps("f"),"v":{"t":"pat","k":"contains","ic":false,"a":cps("0")}}),
                    2 => json!({"m":"flt","c":0,"f":cps("f"),"v":{"t":"cmp","op":op,"n":flt_node("1.5")}}),
                    _ => json!({"m":"int","c":0,"f":cps("f"),"v":{"t":"cmp","op":op,"n":int_node(&ctext)}}),
                };
                let src = json!({"cond":{"t":"id","n":cps("A")},"ids":[[cps("A"),{"t":"map","es":[v]}]]});
                let vals = ["0", "1", "-1", "127", "128", "255", "256", "-128", "-129", "32767", "32768", "65535", "65536",
                            "2147483647", "2147483648", "4294967295", "4294967296", "-2147483648", "-2147483649",
                            "9223372036854775807", "9223372036854775808", "18446744073709551615", "-9223372036854775808",
                            "10000000000000000000", "9007199254740993"];
                let mut docs = vec![];
                for _ in 0..8 {
                    let t = *g.r.pick(&vals);
                    let val = if g.r.chance(1, 5) { json!({"t":"A","vs":[i_node(t), s_node("10")]}) } else { i_node(t) };
                    docs.push(obj(vec![("f".into(), val)]));
                }
                // floats: values that are EXACT in f32 (so the std-type representation may carry them
                // as f32) but are not short decimals - 0.1f32 is 0.100000001490116119384765625 -
                // compared with the short decimal next to them
                let (src, docs) = if g.r.chance(1, 3) {
                    let consts = ["0.1", "0.2", "0.3", "0.7", "16777216.5", "1.5"];
                    let fvals = ["0.100000001490116119384765625", "0.20000000298023223876953125", "0.300000011920928955078125",
                                 "0.699999988079071044921875", "16777216.0", "16777218.0", "1.5", "0.25", "-0.100000001490116119384765625",
                                 "0.0999999940395355224609375"];
                    let op = *g.r.pick(&["gt", "ge", "lt", "le"]);
                    let c = flt_node(*g.r.pick(&consts));
                    let e = if g.r.chance(1, 2) { json!({"m":"none","c":0,"f":cps("f"),"v":{"t":"cmp","op":op,"n":c}}) }
                            else { json!({"m":"flt","c":0,"f":cps("f"),"v":{"t":"cmp","op":op,"n":c}}) };
                    let src = json!({"cond":{"t":"id","n":cps("A")},"ids":[[cps("A"),{"t":"map","es":[e]}]]});
                    let mut docs = vec![];
                    for _ in 0..8 {
                        docs.push(obj(vec![("f".into(), f_node(*g.r.pick(&fvals)))]));
                    }
                    (src, docs)
                } else { (src, docs) };
                json!({"topic":"repr","oracle":true,"wt":true,"src":src,"docs":docs,
                       "plan":{"tri":false,"scope":"sw","sws":[[], [true,true,true,true]],
                               "reprs":["json","jsontext","yamltext","hm","own","ownsigned","doc","ownfind"]}})
            }
            "repr" => json!({"topic":"repr","oracle":true,"wt":true,"src":src,"docs":docs,
                             "plan":{"tri":false,"scope":"sw","sws":[[], [true,true,true,true]],
                                     "reprs":["json","jsontext","yamltext","hm","own","ownsigned","doc","ownfind"]}}),
            _ => return Err(format!("unknown topic {}", topic)),
        };
        let mut c = c;
        if c["src"].get("_undef").is_some() {
            // the condition names an identifier no key spells that way: not well typed, no oracle
            c["wt"] = json!(false);
            c["oracle"] = json!(false);
            if let Some(o) = c["src"].as_object_mut() { o.remove("_undef"); }
            c["plan"]["notwin"] = json!(true);
        }
        if topic == "ser" && c.get("dupid").and_then(|d| d.as_bool()) != Some(true) {
            // every second case is the KEY-ORDER twin of the one before: the same rule with the entries of
            // every mapping written in the opposite order (equal as YAML values, different as rules: a
            // mapping is a conjunction in written order), loaded right after it on the same thread
            if let Some(prev) = twin.take() {
                let mut t: J = prev;
                reverse_entries(&mut t["src"]);
                c = t;
            } else if c.get("dupid").and_then(|d| d.as_bool()) == Some(false) {
                twin = Some(c.clone());
            }
        }
        if topic == "pure" {
            // every second case is the TWIN of the one before: the same rule with every case flag
            // flipped, on the same documents - identical pattern texts that must not share state
            if let Some(prev) = twin.take() {
                let mut t: J = prev;
                flip_ic(&mut t["src"]);
                c = t;
            } else {
                twin = Some(c.clone());
            }
        }
        if force {
            // field NAMES are case-sensitive in both builds: variants of some documents in which one
            // top-level name has its case swapped (the field is then absent under its written name)
            let extra: Vec<J> = c["docs"].as_array().map(|ds| ds.iter().take(2).filter_map(|d| {
                let kv = d["kv"].as_array()?;
                let i = (0..kv.len()).find(|i| str_of(&kv[*i][0]).map(|k| k.chars().any(|c| c.is_ascii_alphabetic())).unwrap_or(false))?;
                let k = str_of(&kv[i][0]).ok()?;
                let swapped: String = k.chars().map(|c| if c.is_ascii_lowercase() { c.to_ascii_uppercase() } else { c.to_ascii_lowercase() }).collect();
                if kv.iter().any(|p| str_of(&p[0]).map(|x| x == swapped).unwrap_or(false)) { return None; }
                let mut d2 = d.clone();
                d2["kv"][i][0] = cps(&swapped);
                Some(d2)
            }).collect()).unwrap_or_default();
            if c["topic"] != "repr" && c.get("dcls").is_none() {
                if let Some(ds) = c["docs"].as_array_mut() { ds.extend(extra); }
            }
            force_ic(&mut c["src"]);
            if let Some(a) = c.get_mut("alts") {
                force_ic(a);
            }
            c["plan"]["scope"] = json!("sw");
        }
        writeln!(w, "{}", c).map_err(|e| e.to_string())?;
    }
    w.flush().map_err(|e| e.to_string())?;
    Ok(())
}

/// rename identifier `old` to `new` in the identifier table and everywhere the condition names it
fn rename_ident(src: &mut J, old: &str, new: &str) {
    fn walk(v: &mut J, old: &J, new: &J) {
        match v {
            J::Object(m) => {
                let is_ref = matches!(m.get("t").and_then(|t| t.as_str()), Some("id") | Some("all") | Some("of"));
                if is_ref && m.get("n") == Some(old) {
                    m.insert("n".into(), new.clone());
                }
                for (_, x) in m.iter_mut() {
                    walk(x, old, new);
                }
            }
            J::Array(a) => a.iter_mut().for_each(|x| walk(x, old, new)),
            _ => {}
        }
    }
    let (o, n) = (cps(old), cps(new));
    if src["cond"]["t"] == "text" {
        return; // conditions given as text are left alone
    }
    walk(&mut src["cond"], &o, &n);
    if let Some(ids) = src["ids"].as_array_mut() {
        for p in ids.iter_mut() {
            if p[0] == o {
                p[0] = n.clone();
            }
        }
    }
}

fn flip_ic(v: &mut J) {
    match v {
        J::Object(m) => {
            if m.get("t").and_then(|t| t.as_str()) == Some("pat") {
                let cur = m.get("ic").and_then(|b| b.as_bool()).unwrap_or(false);
                // a prefix pattern whose text starts with 'i' cannot be written case-sensitively
                let starts_i = m.get("k").and_then(|k| k.as_str()) == Some("prefix")
                    && m.get("a").and_then(|a| a.as_array()).and_then(|a| a.first()).and_then(|c| c.as_u64()) == Some(105);
                if !(cur && starts_i) {
                    m.insert("ic".into(), J::Bool(!cur));
                }
            }
            for (_, x) in m.iter_mut() {
                flip_ic(x);
            }
        }
        J::Array(a) => a.iter_mut().for_each(flip_ic),
        _ => {}
    }
}

/// reverse the entries of every mapping of a rule source (bodies and nested blocks)
fn reverse_entries(v: &mut J) {
    match v {
        J::Object(m) => {
            if m.get("t").and_then(|t| t.as_str()) == Some("map") {
                if let Some(J::Array(es)) = m.get_mut("es") {
                    es.reverse();
                }
            }
            for (_, x) in m.iter_mut() {
                reverse_entries(x);
            }
        }
        J::Array(a) => a.iter_mut().for_each(reverse_entries),
        _ => {}
    }
}

fn force_ic(v: &mut J) {
    match v {
        J::Object(m) => {
            if m.get("t").and_then(|t| t.as_str()) == Some("pat") {
                m.insert("ic".into(), J::Bool(true));
            }
            for (_, x) in m.iter_mut() {
                force_ic(x);
            }
        }
        J::Array(a) => a.iter_mut().for_each(force_ic),
        _ => {}
    }
}
