//! Executes cases against the real engine and records API-level events (ndjson), one event per
//! public call, written after the call returns (the linearisation point of a sequential library).
use crate::docs::*;
use crate::enc::*;
use crate::render::*;
use serde_json::{json, Value as J};
use serde_yaml::Value as Y;
use std::io::Write;
use std::panic::{catch_unwind, AssertUnwindSafe};
use tau_engine::{Optimisations, Rule};

pub struct Out<'a> {
    pub w: &'a mut dyn Write,
    pub events: u64,
}
impl<'a> Out<'a> {
    pub fn ev(&mut self, e: J) {
        writeln!(self.w, "{}", e).expect("write trace");
        self.events += 1;
    }
}

thread_local! {
    static IN_ENGINE: std::cell::Cell<bool> = std::cell::Cell::new(false);
}
/// Panics of the code under test are data; panics of the harness itself stay loud.
pub fn quiet_panics() {
    let default = std::panic::take_hook();
    std::panic::set_hook(Box::new(move |info| {
        if !IN_ENGINE.with(|f| f.get()) {
            default(info);
        }
    }));
}
/// run `f` (engine code) catching its panics
pub fn guarded<T>(f: impl FnOnce() -> T) -> Result<T, ()> {
    let prev = IN_ENGINE.with(|c| c.replace(true));
    let r = catch_unwind(AssertUnwindSafe(f));
    IN_ENGINE.with(|c| c.set(prev));
    r.map_err(|_| ())
}

pub fn sw_of(v: &J) -> Option<Optimisations> {
    let a = v.as_array()?;
    Some(Optimisations {
        coalesce: a.get(0)?.as_bool()?,
        shake: a.get(1)?.as_bool()?,
        rewrite: a.get(2)?.as_bool()?,
        matrix: a.get(3)?.as_bool()?,
    })
}

pub fn all_sws() -> Vec<J> {
    let mut v = vec![json!([])];
    for m in 0..16u32 {
        v.push(json!([m & 1 != 0, m & 2 != 0, m & 4 != 0, m & 8 != 0]));
    }
    v
}

pub enum Loaded {
    Ok(Rule),
    Err(String),
    Panic,
}

pub fn load_text(text: &str) -> Loaded {
    match guarded(|| Rule::from_str(text)) {
        Ok(Ok(r)) => Loaded::Ok(r),
        Ok(Err(e)) => Loaded::Err(format!("{}", e)),
        Err(_) => Loaded::Panic,
    }
}
pub fn load_value(v: Y) -> Loaded {
    match guarded(|| Rule::from_value(v)) {
        Ok(Ok(r)) => Loaded::Ok(r),
        Ok(Err(e)) => Loaded::Err(format!("{}", e)),
        Err(_) => Loaded::Panic,
    }
}
impl Loaded {
    pub fn tag(&self) -> &'static str {
        match self {
            Loaded::Ok(_) => "ok",
            Loaded::Err(_) => "err",
            Loaded::Panic => "panic",
        }
    }
}

pub fn optimise(rule: &Rule, sw: &J) -> Result<Rule, ()> {
    match sw_of(sw) {
        None => Ok(rule.clone()),
        Some(o) => guarded(|| rule.clone().optimise(o)),
    }
}

pub fn matches(rule: &Rule, doc: &dyn tau_engine::Document) -> &'static str {
    match guarded(|| rule.matches(doc)) {
        Ok(true) => "t",
        Ok(false) => "f",
        Err(_) => "p",
    }
}

/// the source with its condition wrapped as `not (cond)`
pub fn negated(src: &J) -> J {
    let mut s = src.clone();
    let c = src["cond"].clone();
    s["cond"] = if c["t"] == "text" {
        let mut t = vec![json!(110), json!(111), json!(116), json!(32), json!(40)];
        t.extend(c["s"].as_array().cloned().unwrap_or_default());
        t.push(json!(41));
        json!({"t":"text","s":t})
    } else {
        json!({"t":"not","e":{"t":"par","e":c}})
    };
    s
}

fn expr_text(rule: &Rule) -> String {
    let mut ids: Vec<(String, String)> = rule
        .detection
        .identifiers
        .iter()
        .map(|(k, v)| (k.clone(), v.to_string()))
        .collect();
    ids.sort();
    let mut s = rule.detection.expression.to_string();
    for (k, v) in ids {
        s.push_str(" ;; ");
        s.push_str(&k);
        s.push('=');
        s.push_str(&v);
    }
    s
}

/// The generic life-cycle runner used by most topics.
///
/// plan keys (all optional): "sws": list of switch arrays / null, "tri": bool, "via_value": bool,
/// "expr": bool (record printed expressions), "repeat": n (optimise n times and compare prints).
pub fn run_life(case: &J, out: &mut Out, ic_build: bool) {
    out.ev(json!({"ev":"case","c":case}));
    let src = &case["src"];
    let plan = &case["plan"];
    let rendered = match rule_yaml(src, &[], &[], ic_build) {
        Ok(r) => r,
        Err(e) => {
            out.ev(json!({"ev":"skip","why":cps(&e)}));
            return;
        }
    };
    let loaded = load_text(&rendered.text);
    out.ev(json!({"ev":"load","via":"str","out":loaded.tag()}));
    if plan["via_value"].as_bool().unwrap_or(false) {
        let l2 = load_value(rendered.value.clone());
        out.ev(json!({"ev":"load2","via":"value","out":l2.tag()}));
    }
    let rule = match loaded {
        Loaded::Ok(r) => r,
        _ => return,
    };
    // the negated twin, for three-valued observation
    let want_tri = plan["tri"].as_bool().unwrap_or(false);
    let neg_rule = if want_tri {
        match rule_yaml(&negated(src), &[], &[], ic_build).map(|r| load_text(&r.text)) {
            Ok(Loaded::Ok(r)) => Some(r),
            _ => None,
        }
    } else {
        None
    };
    if want_tri && neg_rule.is_none() {
        out.ev(json!({"ev":"skip","why":cps("negated twin does not load")}));
    }
    let docs: Vec<Result<Y, String>> = case["docs"]
        .as_array()
        .map(|a| a.iter().map(doc_yaml).collect())
        .unwrap_or_default();
    let sws = match plan["sws"].as_array() {
        Some(a) => a.clone(),
        None => vec![json!([])],
    };
    for (k, sw) in sws.iter().enumerate() {
        let obj = match optimise(&rule, sw) {
            Ok(r) => {
                let mut e = json!({"ev":"opt","obj":k,"sw":sw,"out":"ok"});
                if plan["expr"].as_bool().unwrap_or(false) {
                    e["expr"] = cps(&expr_text(&r));
                }
                out.ev(e);
                r
            }
            Err(()) => {
                out.ev(json!({"ev":"opt","obj":k,"sw":sw,"out":"panic"}));
                continue;
            }
        };
        let nobj = match &neg_rule {
            Some(n) => optimise(n, sw).ok(),
            None => None,
        };
        for (i, d) in docs.iter().enumerate() {
            let d = match d {
                Ok(Y::Mapping(m)) => m,
                _ => continue,
            };
            let m = matches(&obj, d);
            out.ev(json!({"ev":"match","obj":k,"d":i,"repr":"yaml","out":m}));
            if want_tri {
                if let Some(n) = &nobj {
                    let nm = matches(n, d);
                    let tri = match (m, nm) {
                        ("t", "f") => "T",
                        ("f", "t") => "F",
                        ("f", "f") => "M",
                        ("t", "t") => "X",
                        _ => "P",
                    };
                    out.ev(json!({"ev":"tri","obj":k,"d":i,"out":tri}));
                }
            }
        }
    }
}
