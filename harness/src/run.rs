//! Executes cases against the real engine and records API-level events (ndjson), one event per
//! public call, written after the call returns (the linearisation point of a sequential library).
use crate::docs::*;
use crate::enc::*;
use crate::render::*;
use serde_json::{json, Value as J};
use serde_yaml::Value as Y;
use std::io::Write;
use std::panic::{catch_unwind, AssertUnwindSafe};
use tau_engine::{Optimisations, Rule};

pub struct Out<'a> {
    pub w: &'a mut dyn Write,
    pub events: u64,
}
impl<'a> Out<'a> {
    pub fn ev(&mut self, e: J) {
        writeln!(self.w, "{}", e).expect("write trace");
        self.events += 1;
    }
}

thread_local! {
    static IN_ENGINE: std::cell::Cell<bool> = std::cell::Cell::new(false);
}
/// Panics of the code under test are data; panics of the harness itself stay loud.
pub fn quiet_panics() {
    let default = std::panic::take_hook();
    std::panic::set_hook(Box::new(move |info| {
        if !IN_ENGINE.with(|f| f.get()) {
            default(info);
        }
    }));
}
/// run `f` (engine code) catching its panics
pub fn guarded<T>(f: impl FnOnce() -> T) -> Result<T, ()> {
    let prev = IN_ENGINE.with(|c| c.replace(true));
    let r = catch_unwind(AssertUnwindSafe(f));
    IN_ENGINE.with(|c| c.set(prev));
    r.map_err(|_| ())
}

pub fn sw_of(v: &J) -> Option<Optimisations> {
    let a = v.as_array()?;
    Some(Optimisations {
        coalesce: a.get(0)?.as_bool()?,
        shake: a.get(1)?.as_bool()?,
        rewrite: a.get(2)?.as_bool()?,
        matrix: a.get(3)?.as_bool()?,
    })
}

pub fn all_sws() -> Vec<J> {
    let mut v = vec![json!([])];
    for m in 0..16u32 {
        v.push(json!([m & 1 != 0, m & 2 != 0, m & 4 != 0, m & 8 != 0]));
    }
    v
}

pub enum Loaded {
    Ok(Rule),
    Err(String),
    Panic,
    Loop,
}

/// Loading runs on a worker thread under a watchdog: a load that does not return within
/// LOAD_TIMEOUT is reported as `Loop` (C04: loading terminates) and the worker is abandoned.
pub const LOAD_TIMEOUT: std::time::Duration = std::time::Duration::from_secs(5);
static LOOPS: std::sync::atomic::AtomicUsize = std::sync::atomic::AtomicUsize::new(0);
/// number of calls abandoned by the watchdog so far (each leaves a spinning worker behind)
pub fn loops_seen() -> usize {
    LOOPS.load(std::sync::atomic::Ordering::Relaxed)
}

/// Loads run on ONE persistent worker thread (as a service that loads its rule set would), so that
/// whatever a loader keeps per thread carries over from rule to rule; a call that does not return
/// abandons the worker and the next call starts a new one.  `fresh`: a thread of its own (reloads).
type Job = Box<dyn FnOnce() + Send + 'static>;
static LOADER: std::sync::Mutex<Option<std::sync::mpsc::Sender<Job>>> = std::sync::Mutex::new(None);
fn submit(job: Job) {
    let mut g = LOADER.lock().unwrap_or_else(|e| e.into_inner());
    let job = match g.as_ref() {
        Some(tx) => match tx.send(job) {
            Ok(()) => return,
            Err(e) => e.0,
        },
        None => job,
    };
    let (tx, rx) = std::sync::mpsc::channel::<Job>();
    std::thread::spawn(move || {
        for j in rx {
            j();
        }
    });
    let _ = tx.send(job);
    *g = Some(tx);
}
fn abandon_loader() {
    *LOADER.lock().unwrap_or_else(|e| e.into_inner()) = None;
}

fn watchdog<F>(f: F) -> Loaded
where
    F: FnOnce() -> tau_engine_result::R + Send + 'static,
{
    watchdog_on(f, false)
}

fn watchdog_on<F>(f: F, fresh: bool) -> Loaded
where
    F: FnOnce() -> tau_engine_result::R + Send + 'static,
{
    let (tx, rx) = std::sync::mpsc::channel();
    let job = move || {
        let r = guarded(f);
        let _ = tx.send(r);
    };
    if fresh {
        std::thread::spawn(job);
    } else {
        submit(Box::new(job));
    }
    let r = rx.recv_timeout(LOAD_TIMEOUT);
    if r.is_err() && !fresh {
        abandon_loader();
    }
    match r {
        Ok(Ok(Ok(r))) => Loaded::Ok(r),
        Ok(Ok(Err(e))) => Loaded::Err(e),
        Ok(Err(())) => Loaded::Panic,
        Err(_) => {
            LOOPS.fetch_add(1, std::sync::atomic::Ordering::Relaxed);
            Loaded::Loop
        }
    }
}
mod tau_engine_result {
    pub type R = Result<tau_engine::Rule, String>;
}

/// run a textual-layer call under the same watchdog: "ok" | "err" | "panic" | "loop"
pub fn timed<F>(f: F) -> &'static str
where
    F: FnOnce() -> bool + Send + 'static,
{
    let (tx, rx) = std::sync::mpsc::channel();
    std::thread::spawn(move || {
        let r = guarded(f);
        let _ = tx.send(r);
    });
    match rx.recv_timeout(LOAD_TIMEOUT) {
        Ok(Ok(true)) => "ok",
        Ok(Ok(false)) => "err",
        Ok(Err(())) => "panic",
        Err(_) => {
            LOOPS.fetch_add(1, std::sync::atomic::Ordering::Relaxed);
            "loop"
        }
    }
}

pub fn load_text(text: &str) -> Loaded {
    let t = text.to_string();
    watchdog(move || Rule::from_str(&t).map_err(|e| format!("{}", e)))
}
pub fn load_value(v: Y) -> Loaded {
    watchdog(move || Rule::from_value(v).map_err(|e| format!("{}", e)))
}
/// Rule::load on ONE path per process, overwritten by every case (a file that changes between loads)
pub fn load_file(text: &str) -> Loaded {
    let p = std::env::current_dir().unwrap_or_else(|_| std::path::PathBuf::from(".")).join(format!("tvh_rule_{}.yml", std::process::id()));
    if std::fs::write(&p, text).is_err() {
        return Loaded::Err("cannot write rule file".into());
    }
    let p2 = p.clone();
    let r = watchdog(move || Rule::load(&p2).map_err(|e| format!("{}", e)));
    let _ = std::fs::remove_file(&p);
    r
}
/// the same on a thread of their own (a reload happens "elsewhere")
pub fn load_text_fresh(text: &str) -> Loaded {
    let t = text.to_string();
    watchdog_on(move || Rule::from_str(&t).map_err(|e| format!("{}", e)), true)
}
pub fn load_value_fresh(v: Y) -> Loaded {
    watchdog_on(move || Rule::from_value(v).map_err(|e| format!("{}", e)), true)
}
impl Loaded {
    pub fn tag(&self) -> &'static str {
        match self {
            Loaded::Ok(_) => "ok",
            Loaded::Err(_) => "err",
            Loaded::Panic => "panic",
            Loaded::Loop => "loop",
        }
    }
}

pub fn optimise(rule: &Rule, sw: &J) -> Result<Rule, ()> {
    match sw_of(sw) {
        None => Ok(rule.clone()),
        Some(o) => guarded(|| rule.clone().optimise(o)),
    }
}

pub fn matches(rule: &Rule, doc: &dyn tau_engine::Document) -> &'static str {
    match guarded(|| rule.matches(doc)) {
        Ok(true) => "t",
        Ok(false) => "f",
        Err(_) => "p",
    }
}

/// the source with its condition wrapped as `not (cond)`
pub fn negated(src: &J) -> J {
    let mut s = src.clone();
    let c = src["cond"].clone();
    s["cond"] = if c["t"] == "text" {
        let mut t = vec![json!(110), json!(111), json!(116), json!(32), json!(40)];
        t.extend(c["s"].as_array().cloned().unwrap_or_default());
        t.push(json!(41));
        json!({"t":"text","s":t})
    } else {
        json!({"t":"not","e":{"t":"par","e":c}})
    };
    s
}

pub(crate) fn expr_text(rule: &Rule) -> String {
    let mut ids: Vec<(String, String)> = rule
        .detection
        .identifiers
        .iter()
        .map(|(k, v)| (k.clone(), v.to_string()))
        .collect();
    ids.sort();
    let mut s = rule.detection.expression.to_string();
    for (k, v) in ids {
        s.push_str(" ;; ");
        s.push_str(&k);
        s.push('=');
        s.push_str(&v);
    }
    s
}


// ---------------------------------------------------------------------------------------------
// adversarial documents: every value kind on every field the rule names (C03)

fn collect_fields(src: &J) -> Vec<String> {
    fn body(b: &J, prefix: &str, out: &mut Vec<String>) {
        match b["t"].as_str().unwrap_or("") {
            "seq" => {
                for m in b["ms"].as_array().unwrap_or(&vec![]) {
                    body(m, prefix, out);
                }
            }
            "map" => {
                for e in b["es"].as_array().unwrap_or(&vec![]) {
                    let f = match e.get("f").map(str_of) {
                        Some(Ok(f)) => f,
                        _ => continue,
                    };
                    let path = if prefix.is_empty() { f } else { format!("{}.{}", prefix, f) };
                    out.push(path.clone());
                    let v = &e["v"];
                    if v["t"] == "map" {
                        body(v, &path, out);
                    } else if v["t"] == "list" {
                        for x in v["vs"].as_array().unwrap_or(&vec![]) {
                            if x["t"] == "map" {
                                body(x, &path, out);
                            }
                        }
                    }
                }
            }
            _ => {}
        }
    }
    fn cond(c: &J, out: &mut Vec<String>) {
        match c["t"].as_str().unwrap_or("") {
            "and" | "or" => {
                cond(&c["l"], out);
                cond(&c["r"], out);
            }
            "not" | "par" => cond(&c["e"], out),
            "cmp" => {
                for o in [&c["l"], &c["r"]] {
                    let o = if o["t"] == "par" { &o["e"] } else { o };
                    if o["t"] == "cast" {
                        if let Ok(f) = str_of(&o["f"]) {
                            out.push(f);
                        }
                    }
                }
            }
            "text" => {
                // field names inside casts of a textual condition: int(f) flt(g) str(h)
                if let Ok(t) = str_of(&c["s"]) {
                    for kw in ["int(", "flt(", "str(", "string("] {
                        let mut rest = t.as_str();
                        while let Some(p) = rest.find(kw) {
                            let after = &rest[p + kw.len()..];
                            if let Some(q) = after.find(')') {
                                out.push(after[..q].trim().to_string());
                            }
                            rest = after;
                        }
                    }
                }
            }
            _ => {}
        }
    }
    let mut out = vec![];
    for pair in src["ids"].as_array().unwrap_or(&vec![]) {
        body(&pair[1], "", &mut out);
    }
    cond(&src["cond"], &mut out);
    out.sort();
    out.dedup();
    out.retain(|f| !f.is_empty() && f.split('.').all(|s| !s.is_empty()));
    out
}

/// for an indexed first segment name[i]: arrays of exactly i, i + 1 and 0 elements (the boundary of
/// the index), as documents of their own
fn indexed_docs(fields: &[String]) -> Vec<J> {
    let mut docs = vec![];
    for f in fields {
        let first = f.split('.').next().unwrap_or("");
        if let (Some(p), true) = (first.find('['), first.ends_with(']')) {
            let name = &first[..p];
            let idx: usize = first[p + 1..first.len() - 1].parse().unwrap_or(0);
            for len in [idx, idx + 1, 0] {
                let vs: Vec<J> = (0..len).map(|_| json!({"t":"S","s":cps("x")})).collect();
                docs.push(json!({"t":"O","kv":[[cps(name), {"t":"A","vs":vs}]]}));
            }
        }
    }
    docs
}

fn nest(path: &str, v: J) -> (String, J) {
    match path.split_once('.') {
        None => (path.to_string(), v),
        Some((h, r)) => {
            let (k, inner) = nest(r, v);
            (h.to_string(), json!({"t":"O","kv":[[cps(&k), inner]]}))
        }
    }
}

pub fn adversarial_docs(src: &J) -> Vec<J> {
    let all_fields = collect_fields(src);
    let extra = indexed_docs(&all_fields);
    let fields: Vec<String> = all_fields.into_iter().filter(|f| !f.contains('[')).collect();
    let s = |x: &str| json!({"t":"S","s":cps(x)});
    let i = |neg: bool, d: &str| json!({"t":"I","neg":neg,"d":digits(d)});
    let kinds: Vec<J> = vec![
        s(""),
        s("x"),
        s("1"),
        s("-1.5"),
        i(false, "0"),
        i(false, "1"),
        i(true, "1"),
        i(false, "9223372036854775807"),
        i(true, "9223372036854775808"),
        i(false, "9223372036854775808"),
        i(false, "18446744073709551615"),
        json!({"t":"F","neg":false,"d":[1],"fr":[5],"sp":""}),
        json!({"t":"F","neg":true,"d":[],"fr":[],"sp":""}),
        json!({"t":"F","neg":false,"d":[],"fr":[],"sp":"nan"}),
        json!({"t":"F","neg":false,"d":[],"fr":[],"sp":"inf"}),
        json!({"t":"F","neg":true,"d":[],"fr":[],"sp":"inf"}),
        json!({"t":"B","b":true}),
        json!({"t":"B","b":false}),
        json!({"t":"N"}),
        json!({"t":"A","vs":[]}),
        json!({"t":"A","vs":[s("x"), i(false, "1"), {"t":"N"}, {"t":"B","b":true}, {"t":"A","vs":[]}, {"t":"O","kv":[]}]}),
        json!({"t":"A","vs":[{"t":"O","kv":[[cps("f"), s("x")]]}, {"t":"O","kv":[]}, s("x")]}),
        json!({"t":"O","kv":[]}),
        json!({"t":"O","kv":[[cps("f"), s("x")], [cps("g"), i(false, "1")], [cps("t"), {"t":"N"}], [cps("u"), {"t":"A","vs":[s("x")]}]]}),
    ];
    let mut docs = vec![json!({"t":"O","kv":[]})];
    // one document per kind: every field gets that kind (nested paths share their prefix, so
    // fields whose path passes through another field are placed in separate documents)
    for k in &kinds {
        let mut kv: Vec<(String, J)> = vec![];
        for f in &fields {
            let (h, v) = nest(f, k.clone());
            if !kv.iter().any(|(x, _)| *x == h) {
                kv.push((h, v));
            }
        }
        docs.push(json!({"t":"O","kv":kv.iter().map(|(k, v)| json!([cps(k), v])).collect::<Vec<_>>()}));
    }
    // rotating mixtures: field j gets kind (j + r)
    for r in 0..kinds.len().min(8) {
        let mut kv: Vec<(String, J)> = vec![];
        for (j, f) in fields.iter().enumerate() {
            let (h, v) = nest(f, kinds[(j * 5 + r * 3) % kinds.len()].clone());
            if !kv.iter().any(|(x, _)| *x == h) {
                kv.push((h, v));
            }
        }
        docs.push(json!({"t":"O","kv":kv.iter().map(|(k, v)| json!([cps(k), v])).collect::<Vec<_>>()}));
    }
    // the index-boundary documents first, so that a small `adv: n` still includes them
    let mut out = extra;
    out.extend(docs);
    out
}

// ---------------------------------------------------------------------------------------------
// examples (validate)

pub(crate) const MARK_KEY: &str = "zzmark";

/// examples: [{"d": doc index}] (a mapping, tagged with a unique marker) or [{"raw": DOC}]
pub(crate) fn example_yaml(ex: &J, docs: &[J], idx: usize) -> Result<Y, String> {
    if let Some(raw) = ex.get("raw") {
        return doc_yaml(raw);
    }
    let d = ex["d"].as_u64().ok_or("example doc index")? as usize;
    let mut y = doc_yaml(docs.get(d).ok_or("example doc index out of range")?)?;
    // `nomark`: the example is the document exactly as it is (the same document may then stand in
    // both lists, or twice in one, as IDENTICAL YAML values)
    if ex["nomark"].as_bool().unwrap_or(false) {
        return Ok(y);
    }
    if let Y::Mapping(m) = &mut y {
        m.insert(ystr(MARK_KEY), ystr(&format!("MARK{}Q", idx)));
    }
    Ok(y)
}

pub fn validate(rule: &Rule) -> (&'static str, String, String) {
    match guarded(|| rule.validate()) {
        Ok(Ok(_)) => ("ok", String::new(), String::new()),
        Ok(Err(e)) => ("err", format!("{:?}", e.kind()), format!("{:?}", e)),
        Err(()) => ("panic", String::new(), String::new()),
    }
}

// ---------------------------------------------------------------------------------------------

pub(crate) fn match_repr(rule: &Rule, d: &J, repr: &str, variant: u64) -> Result<&'static str, String> {
    Ok(match repr {
        "yaml" => match doc_yaml(d)? {
            Y::Mapping(m) => matches(rule, &m),
            _ => return Err("root is not a mapping".into()),
        },
        "json" => matches(rule, &doc_json(d)?),
        "jsontext" => {
            let t = serde_json::to_string(&doc_json(d)?).map_err(|e| e.to_string())?;
            let v: J = serde_json::from_str(&t).map_err(|e| e.to_string())?;
            matches(rule, &v)
        }
        "yamltext" => {
            let t = serde_yaml::to_string(&doc_yaml(d)?).map_err(|e| e.to_string())?;
            let v: Y = serde_yaml::from_str(&t).map_err(|e| e.to_string())?;
            match v {
                Y::Mapping(m) => matches(rule, &m),
                _ => return Err("root is not a mapping".into()),
            }
        }
        "hm" => matches(rule, &std_root(d, variant)?),
        "own" => matches(rule, &own_root(d, false)?),
        "ownsigned" => matches(rule, &own_root(d, true)?),
        "doc" => matches(rule, &OwnDoc(own_root(d, false)?)),
        "ownfind" => matches(rule, &find_root(d)?),
        "flatdoc" => matches(rule, &flat_root(d)?),
        x => return Err(format!("unknown representation {}", x)),
    })
}

pub(crate) fn detection_fingerprint(rule: &Rule) -> Result<String, String> {
    // the serialised form, re-parsed to a YAML value with mapping keys sorted (identifier order
    // in the serialised text is HashMap order and carries no meaning)
    let text = serde_yaml::to_string(rule).map_err(|e| e.to_string())?;
    let v: Y = serde_yaml::from_str(&text).map_err(|e| e.to_string())?;
    value_fingerprint(&v)
}

/// canonical form of a rule given as a YAML value: detection (identifiers sorted by name, bodies in
/// written order) and the two example lists
pub(crate) fn value_fingerprint(v: &Y) -> Result<String, String> {
    fn canon(v: &Y, top: bool) -> String {
        match v {
            Y::Mapping(m) => {
                let mut items: Vec<(String, String)> =
                    m.iter().map(|(k, v)| (canon(k, false), canon(v, false))).collect();
                if top {
                    items.sort();
                }
                format!("{{{}}}", items.iter().map(|(k, v)| format!("{}:{}", k, v)).collect::<Vec<_>>().join(","))
            }
            Y::Sequence(s) => format!("[{}]", s.iter().map(|x| canon(x, false)).collect::<Vec<_>>().join(",")),
            Y::String(s) => format!("{:?}", s),
            Y::Number(n) => format!("#{}", n),
            Y::Bool(b) => format!("{}", b),
            Y::Null => "~".into(),
            Y::Tagged(t) => format!("!{}", canon(&t.value, false)),
        }
    }
    // detection: identifiers sorted by name, bodies in written order
    let det = match v.get("detection") {
        Some(Y::Mapping(m)) => {
            let mut items: Vec<(String, String)> =
                m.iter().map(|(k, v)| (canon(k, false), canon(v, false))).collect();
            items.sort();
            format!("{:?}", items)
        }
        _ => "none".into(),
    };
    Ok(format!(
        "det={} tp={} tn={}",
        det,
        // an explicit null where a list is expected is the empty list (what a loader that accepts it makes of it)
        v.get("true_positives").map(|x| if x.is_null() { "[]".to_string() } else { canon(x, false) }).unwrap_or_default(),
        v.get("true_negatives").map(|x| if x.is_null() { "[]".to_string() } else { canon(x, false) }).unwrap_or_default()
    ))
}

/// The generic life-cycle runner used by most topics.  plan keys (all optional):
///  sws        list of switch arrays ([] = not optimised); default [[]]
///  tri        observe three-valued results through the negated twin
///  via_value  also load through Rule::from_value
///  expr       record the printed expression of every object
///  repeat     optimise each switch set this many extra times (prints must agree)
///  adv        append adversarial documents
///  reprs      extra document representations to match through
///  validate   call validate() on every object (examples: case.tps / case.tns)
///  ser        serialise every object, reload it, match on the reloaded object
///  threads    match every document from this many threads sharing one &Rule
pub fn run_life(case_in: &J, out: &mut Out, ic_build: bool) {
    let mut case = case_in.clone();
    let plan = case_in["plan"].clone();
    let src = case_in["src"].clone();
    // adv: true = every adversarial document, n = the first n of them
    let adv_n = match &plan["adv"] {
        J::Bool(true) => usize::MAX,
        J::Number(n) => n.as_u64().unwrap_or(0) as usize,
        _ => 0,
    };
    if adv_n > 0 {
        let mut docs = case["docs"].as_array().cloned().unwrap_or_default();
        let adv = adversarial_docs(&src);
        // rotate so that a small n still sees different kinds from case to case
        let rot = crate::enc::str_of(&src["cond"]["s"]).map(|s| s.len()).unwrap_or(0);
        let n = adv.len();
        docs.extend((0..n.min(adv_n)).map(|i| adv[(i * 5 + rot) % n].clone()));
        case["docs"] = J::Array(docs);
    }
    let docs_j: Vec<J> = case["docs"].as_array().cloned().unwrap_or_default();
    // a second execution of a case that was already recorded (C12): no new case event, the objects
    // are numbered after those of the first execution
    let again_base = case_in["_again"]["base"].as_u64().map(|b| b as usize);
    if again_base.is_none() {
        out.ev(json!({"ev":"case","c":case}));
    }
    // examples
    let mut tps: Vec<Y> = vec![];
    let mut tns: Vec<Y> = vec![];
    let mut n_ex = 0usize;
    for (key, dst) in [("tps", &mut tps), ("tns", &mut tns)] {
        for ex in case[key].as_array().cloned().unwrap_or_default() {
            match example_yaml(&ex, &docs_j, n_ex) {
                Ok(y) => dst.push(y),
                Err(e) => {
                    out.ev(json!({"ev":"skip","why":cps(&e)}));
                    return;
                }
            }
            n_ex += 1;
        }
    }
    let rendered = match rule_yaml(&src, &tps, &tns, ic_build) {
        Ok(r) => r,
        Err(e) => {
            out.ev(json!({"ev":"skip","why":cps(&e)}));
            return;
        }
    };
    // `dupid`: the rule TEXT defines its first identifier twice (a different definition first).  A YAML
    // mapping with a repeated key is not a rule: loading fails - and if a loader ever tolerated it, the
    // definition it evaluates and the one it serialises must be the same one (C14)
    let mut rendered = rendered;
    if case_in["dupid"].as_bool().unwrap_or(false) {
        if let Some(p) = rendered.text.find("detection:\n") {
            let after = p + "detection:\n".len();
            if let Some(line) = rendered.text[after..].lines().next() {
                if line.starts_with("  ") && !line.starts_with("   ") && line.trim_end().ends_with(':') {
                    let ins = format!("{}\n    zzdup: q\n", line);
                    rendered.text.insert_str(after, &ins);
                }
            }
        }
    }
    // `spell`: another spelling of the same YAML; the value path gets the value THIS text parses to
    if let Some(sp) = case_in["spell"].as_str() {
        let ins = |t: &mut String, line: &str| {
            if let Some(p) = t.find("detection:\n") {
                t.insert_str(p + "detection:\n".len(), line);
            }
        };
        match sp {
            "nullex" => rendered.text = rendered.text.replace("true_negatives: []", "true_negatives: ~"),
            "numid" => ins(&mut rendered.text, "  1: {zz: q}\n"),
            "fltid" => ins(&mut rendered.text, "  1.5: {zz: q}\n"),
            "boolid" => ins(&mut rendered.text, "  true: {zz: q}\n"),
            "nullid" => ins(&mut rendered.text, "  ~: {zz: q}\n"),
            "docstart" => rendered.text = format!("---\n{}", rendered.text),
            // an identifier block written with a YAML merge key: serde_yaml leaves `<<` alone unless asked, so the block has
            // the literal key `<<` (not a valid key) - on BOTH paths
            "mergeid" => ins(&mut rendered.text, "  zzbase: &zb {zz: q}\n  zzm:\n    <<: *zb\n"),
            _ => rendered.text = format!("# a comment\n{}", rendered.text),
        }
        match serde_yaml::from_str::<Y>(&rendered.text) {
            Ok(v) => rendered.value = v,
            Err(e) => {
                out.ev(json!({"ev":"skip","why":cps(&format!("spelling {} is not YAML: {}", sp, e))}));
                return;
            }
        }
    }
    let loaded = load_text(&rendered.text);
    if again_base.is_some() {
        out.ev(json!({"ev":"load2","via":"again","out":loaded.tag()}));
    } else {
        out.ev(json!({"ev":"load","via":"str","out":loaded.tag()}));
    }
    let via_value = plan["via_value"].as_bool().unwrap_or(false);
    if (via_value || plan["via_file"].as_bool().unwrap_or(false)) && again_base.is_none() {
        if via_value {
            let l2 = load_value(rendered.value.clone());
            out.ev(json!({"ev":"load2","via":"value","out":l2.tag()}));
        }
        // third path: Rule::load of a file holding this text (the same path for every case of the process); what it
        // loads must be THIS text's rule - compared through the serialised form
        let l3 = load_file(&rendered.text);
        let tag = match (&l3, &loaded) {
            (Loaded::Ok(a), Loaded::Ok(b)) => {
                // canonical comparison: identifiers live in a hash map, two loads serialise them in different orders
                let fp = |r: &Rule| serde_yaml::to_value(r).map_err(|e| e.to_string()).and_then(|v| value_fingerprint(&v));
                if fp(a) == fp(b) { "ok" } else { "differs" }
            }
            _ => l3.tag(),
        };
        out.ev(json!({"ev":"load2","via":"file","out":tag}));
    }
    let rule = match loaded {
        Loaded::Ok(r) => r,
        _ => return,
    };
    let want_tri = plan["tri"].as_bool().unwrap_or(false);
    let neg_rule = if want_tri {
        match rule_yaml(&negated(&src), &[], &[], ic_build).map(|r| load_text(&r.text)) {
            Ok(Loaded::Ok(r)) => Some(r),
            _ => None,
        }
    } else {
        None
    };
    if want_tri && neg_rule.is_none() {
        out.ev(json!({"ev":"skip","why":cps("negated twin does not load")}));
    }
    let docs: Vec<Result<Y, String>> = docs_j.iter().map(doc_yaml).collect();
    let sws = match plan["sws"].as_array() {
        Some(a) => a.clone(),
        None => vec![json!([])],
    };
    let reprs: Vec<String> = plan["reprs"]
        .as_array()
        .map(|a| a.iter().filter_map(|x| x.as_str().map(|s| s.to_string())).collect())
        .unwrap_or_default();
    let want_expr = plan["expr"].as_bool().unwrap_or(false);
    let repeat = plan["repeat"].as_u64().unwrap_or(0);
    let nthreads = plan["threads"].as_u64().unwrap_or(0) as usize;
    let mut k = again_base.unwrap_or(0); // object counter
    let simple = again_base.is_some(); // second execution: optimise and match only
    for sw in sws.iter() {
        for rep in 0..=repeat {
            let obj = match optimise(&rule, sw) {
                Ok(r) => {
                    let mut e = json!({"ev":"opt","obj":k,"sw":sw,"out":"ok"});
                    if want_expr {
                        // prints are only compared for equality: a long one is carried by its length
                        // and a 64-bit FNV-1a hash
                        let t = expr_text(&r);
                        e["expr"] = if t.len() > 4000 {
                            let h = t.bytes().fold(0xcbf29ce484222325u64, |a, b| (a ^ b as u64).wrapping_mul(0x100000001b3));
                            cps(&format!("len {} fnv {:016x}", t.len(), h))
                        } else {
                            cps(&t)
                        };
                    }
                    out.ev(e);
                    r
                }
                Err(()) => {
                    out.ev(json!({"ev":"opt","obj":k,"sw":sw,"out":"panic"}));
                    k += 1;
                    continue;
                }
            };
            let me = k;
            k += 1;
            if rep > 0 {
                continue; // repeats only compare prints
            }
            // three-valued observation only on the not-optimised object: the negated twin of a
            // condition `not X` is `not (not X)`, which shake rewrites (KF-shake-double-negation)
            let nobj = match &neg_rule {
                Some(n) if sw_of(sw).is_none() => Some(n.clone()),
                _ => None,
            };
            for (i, d) in docs.iter().enumerate() {
                let d = match d {
                    Ok(Y::Mapping(m)) => m,
                    _ => continue,
                };
                let m = matches(&obj, d);
                out.ev(json!({"ev":"match","obj":me,"d":i,"repr":"yaml","out":m}));
                if want_tri {
                    if let Some(n) = &nobj {
                        let nm = matches(n, d);
                        let tri = match (m, nm) {
                            ("t", "f") => "T",
                            ("f", "t") => "F",
                            ("f", "f") => "M",
                            ("t", "t") => "X",
                            _ => "P",
                        };
                        out.ev(json!({"ev":"tri","obj":me,"d":i,"out":tri}));
                    }
                }
                for (ri, repr) in reprs.iter().enumerate() {
                    match match_repr(&obj, &docs_j[i], repr, (i * 7 + ri) as u64) {
                        Ok(m) => out.ev(json!({"ev":"match","obj":me,"d":i,"repr":repr,"out":m})),
                        Err(_) => {}
                    }
                }
            }
            if nthreads > 0 && !simple {
                let maps: Vec<(usize, &serde_yaml::Mapping)> = docs
                    .iter()
                    .enumerate()
                    .filter_map(|(i, d)| match d {
                        Ok(Y::Mapping(m)) => Some((i, m)),
                        _ => None,
                    })
                    .collect();
                // the threads start together (barrier) and walk the documents several times, each in its
                // own order, so that different documents are being matched at the same moment; every
                // DISTINCT (document, outcome) a thread saw is recorded
                let barrier = std::sync::Barrier::new(nthreads);
                let rounds = if maps.len() <= 8 { 40 } else { 8 };
                let results: Vec<Vec<(usize, &'static str)>> = std::thread::scope(|s| {
                    let hs: Vec<_> = (0..nthreads)
                        .map(|t| {
                            let obj = &obj;
                            let maps = &maps;
                            let barrier = &barrier;
                            s.spawn(move || {
                                let mut v: Vec<(usize, &'static str)> = vec![];
                                barrier.wait();
                                for round in 0..rounds {
                                    for j in 0..maps.len() {
                                        let (i, m) = maps[(j * (2 * t + 1) + t + round) % maps.len()];
                                        let r = (i, matches(obj, m));
                                        if !v.contains(&r) {
                                            v.push(r);
                                        }
                                    }
                                }
                                v
                            })
                        })
                        .collect();
                    hs.into_iter().map(|h| h.join().unwrap_or_default()).collect()
                });
                for (t, v) in results.iter().enumerate() {
                    for (seq, (i, m)) in v.iter().enumerate() {
                        out.ev(json!({"ev":"match","obj":me,"d":i,"repr":"yaml","thr":t + 1,"seq":seq,"out":m}));
                    }
                }
            }
            // C12: `lockstep` threads share the rule and walk a hand-written document in lock step
            let nlock = plan["lockstep"].as_u64().unwrap_or(0) as usize;
            if nlock > 0 && !simple {
                for (i, dj) in docs_j.iter().enumerate() {
                    let root = match own_root(dj, false) {
                        Ok(r) => r,
                        Err(_) => continue,
                    };
                    let ls = std::sync::Arc::new(crate::docs::Lockstep::new(nlock));
                    let results: Vec<&'static str> = std::thread::scope(|s| {
                        let hs: Vec<_> = (0..nlock)
                            .map(|_| {
                                let (obj, root, ls) = (&obj, &root, ls.clone());
                                s.spawn(move || {
                                    crate::docs::LOCKSTEP.with(|l| *l.borrow_mut() = Some(ls));
                                    let m = matches(obj, root);
                                    crate::docs::LOCKSTEP.with(|l| *l.borrow_mut() = None);
                                    m
                                })
                            })
                            .collect();
                        hs.into_iter().map(|h| h.join().unwrap_or("p")).collect()
                    });
                    for (t, m) in results.iter().enumerate() {
                        out.ev(json!({"ev":"match","obj":me,"d":i,"repr":"own","thr":100 + t,"out":m}));
                    }
                }
            }
            // C16: match through a recording document and report every find() the engine made
            if plan["find"].as_bool().unwrap_or(false) && !simple {
                for (i, dj) in docs_j.iter().enumerate() {
                    let log = RecLog(std::cell::RefCell::new(vec![]));
                    let root = match rec_build(dj, vec![], &log) {
                        Ok(RecVal::Obj(o)) => o,
                        _ => continue,
                    };
                    let m = matches(&obj, &root);
                    let calls: Vec<J> = log
                        .0
                        .borrow()
                        .iter()
                        .filter(|(_, meth, _)| *meth == "find")
                        .map(|(p, _, k)| json!([p.iter().map(|s| cps(s)).collect::<Vec<_>>(), cps(k)]))
                        .collect();
                    out.ev(json!({"ev":"finds","obj":me,"d":i,"out":m,"calls":calls}));
                }
            }
            // rule.rs: optimising happens once - a second optimise() on an optimised object, with
            // other switches, must return it unchanged (same print, same verdicts)
            if plan["reopt"].as_bool().unwrap_or(false) && !simple && sw_of(sw).is_some() {
                let cur: Vec<bool> = sw.as_array().map(|a| a.iter().map(|b| b.as_bool().unwrap_or(false)).collect()).unwrap_or_default();
                let flipped: Vec<bool> = cur.iter().map(|b| !b).collect();
                let mut others = vec![flipped];
                if cur.iter().any(|b| !b) {
                    others.push(vec![true, true, true, true]);
                }
                let before = expr_text(&obj);
                for o2 in others {
                    let sw2 = json!(o2);
                    let r2 = match sw_of(&sw2) {
                        Some(o) => guarded(|| obj.clone().optimise(o)),
                        None => continue,
                    };
                    let me2 = k;
                    k += 1;
                    match r2 {
                        Ok(r2) => {
                            out.ev(json!({"ev":"reopt","from":me,"obj":me2,"sw2":sw2,"out":"ok","same":expr_text(&r2) == before}));
                            for (i, d) in docs.iter().enumerate() {
                                if let Ok(Y::Mapping(m)) = d {
                                    out.ev(json!({"ev":"match","obj":me2,"d":i,"repr":"yaml","out":matches(&r2, m)}));
                                }
                            }
                        }
                        Err(_) => out.ev(json!({"ev":"reopt","from":me,"obj":me2,"sw2":sw2,"out":"panic","same":false})),
                    }
                }
            }
            // alternative sources that must denote the same (C08 explicit forms, C17 permutations)
            if let Some(alts) = case["alts"].as_array().filter(|_| !simple) {
                for (ai, alt) in alts.iter().enumerate() {
                    let loaded = match rule_yaml(alt, &[], &[], ic_build) {
                        Ok(r) => load_text(&r.text),
                        Err(e) => {
                            out.ev(json!({"ev":"skip","why":cps(&e)}));
                            continue;
                        }
                    };
                    let tag = loaded.tag();
                    let r2 = match loaded {
                        Loaded::Ok(r) => optimise(&r, sw).ok(),
                        _ => None,
                    };
                    out.ev(json!({"ev":"alt","i":ai,"from":me,"obj":k,"out": if r2.is_some() { "ok" } else if tag == "ok" { "panic" } else { tag }}));
                    let me2 = k;
                    k += 1;
                    if let Some(r2) = r2 {
                        for (i, d) in docs.iter().enumerate() {
                            if let Ok(Y::Mapping(m)) = d {
                                let mm = matches(&r2, m);
                                out.ev(json!({"ev":"match","obj":me2,"d":i,"repr":"yaml","out":mm}));
                            }
                        }
                    }
                }
            }
            if plan["validate"].as_bool().unwrap_or(false) && !simple {
                let (o, kind, msg) = validate(&obj);
                let named: Vec<usize> = (0..n_ex).filter(|i| msg.contains(&format!("MARK{}Q", i))).collect();
                out.ev(json!({"ev":"validate","obj":me,"out":o,"kind":kind,"named":named}));
            }
            if plan["ser"].as_bool().unwrap_or(false) && !simple {
                let text = guarded(|| serde_yaml::to_string(&obj));
                match text {
                    Ok(Ok(text)) => {
                        out.ev(json!({"ev":"ser","obj":me,"out":"ok"}));
                        // compared with the rule AS WRITTEN (the YAML value that was loaded), not with
                        // what the loaded rule would serialise to
                        let fp0 = serde_yaml::from_str::<Y>(&rendered.text)
                            .map_err(|e| e.to_string())
                            .and_then(|v| value_fingerprint(&v))
                            .unwrap_or_else(|e| format!("err0:{}", e));
                        for via in ["str", "value"] {
                            let re = if via == "str" {
                                load_text_fresh(&text)
                            } else {
                                match serde_yaml::from_str::<Y>(&text) {
                                    Ok(v) => load_value_fresh(v),
                                    Err(e) => Loaded::Err(e.to_string()),
                                }
                            };
                            let tag = re.tag();
                            match re {
                                Loaded::Ok(r2) => {
                                    let fp1 = detection_fingerprint(&r2).unwrap_or_else(|e| format!("err1:{}", e));
                                    out.ev(json!({"ev":"reload","from":me,"obj":k,"via":via,"out":"ok","same":fp0 == fp1}));
                                    let me2 = k;
                                    k += 1;
                                    for (i, d) in docs.iter().enumerate() {
                                        if let Ok(Y::Mapping(m)) = d {
                                            let mm = matches(&r2, m);
                                            out.ev(json!({"ev":"match","obj":me2,"d":i,"repr":"yaml","out":mm}));
                                        }
                                    }
                                }
                                _ => {
                                    out.ev(json!({"ev":"reload","from":me,"obj":k,"via":via,"out":tag,"same":false}));
                                    k += 1;
                                }
                            }
                        }
                    }
                    Ok(Err(_)) => out.ev(json!({"ev":"ser","obj":me,"out":"err"})),
                    Err(()) => out.ev(json!({"ev":"ser","obj":me,"out":"panic"})),
                }
            }
        }
    }
}
