//! The textual layers on their own (C04): pattern parsing, condition tokenising, and loading of
//! arbitrary text / YAML shapes.
use crate::enc::*;
use crate::run::*;
use serde_json::{json, Value as J};
use tau_engine::core::parser::{IdentifierParser, Pattern, Tokeniser};

/// {"run":"ident","text":cps}: String::into_identifier
pub fn run_ident(case: &J, out: &mut Out) {
    out.ev(json!({"ev":"case","c":case}));
    let text = match str_of(&case["text"]) {
        Ok(t) => t,
        Err(e) => {
            out.ev(json!({"ev":"skip","why":cps(&e)}));
            return;
        }
    };
    let r = guarded(|| text.clone().into_identifier());
    let e = match r {
        Err(()) => json!({"ev":"ident","out":"panic","k":"","ic":false,"a":[]}),
        Ok(Err(_)) => json!({"ev":"ident","out":"err","k":"","ic":false,"a":[]}),
        Ok(Ok(id)) => {
            let (k, a) = match &id.pattern {
                Pattern::Any => ("any", String::new()),
                Pattern::Contains(s) => ("contains", s.clone()),
                Pattern::EndsWith(s) => ("suffix", s.clone()),
                Pattern::Exact(s) => ("exact", s.clone()),
                Pattern::StartsWith(s) => ("prefix", s.clone()),
                Pattern::Regex(r) => ("regex", r.as_str().to_string()),
                Pattern::Equal(i) => ("eq", i.to_string()),
                Pattern::GreaterThan(i) => ("gt", i.to_string()),
                Pattern::GreaterThanOrEqual(i) => ("ge", i.to_string()),
                Pattern::LessThan(i) => ("lt", i.to_string()),
                Pattern::LessThanOrEqual(i) => ("le", i.to_string()),
                Pattern::FEqual(i) => ("eq", i.to_string()),
                Pattern::FGreaterThan(i) => ("gt", i.to_string()),
                Pattern::FGreaterThanOrEqual(i) => ("ge", i.to_string()),
                Pattern::FLessThan(i) => ("lt", i.to_string()),
                Pattern::FLessThanOrEqual(i) => ("le", i.to_string()),
            };
            json!({"ev":"ident","out":"ok","k":k,"ic":id.ignore_case,"a":cps(&a)})
        }
    };
    out.ev(e);
}

/// {"run":"fuzz", "text":cps} or {"run":"fuzz","yaml":DOC}: every loading entry point and the
/// textual layers on their own; only totality is observed.
pub fn run_fuzz(case: &J, out: &mut Out) {
    out.ev(json!({"ev":"case","c":case}));
    let text = if case.get("text").is_some() {
        match str_of(&case["text"]) {
            Ok(t) => t,
            Err(e) => {
                out.ev(json!({"ev":"skip","why":cps(&e)}));
                return;
            }
        }
    } else {
        match crate::docs::doc_yaml(&case["yaml"]).and_then(|y| serde_yaml::to_string(&y).map_err(|e| e.to_string())) {
            Ok(t) => t,
            Err(e) => {
                out.ev(json!({"ev":"skip","why":cps(&e)}));
                return;
            }
        }
    };
    let l = load_text(&text);
    out.ev(json!({"ev":"fload","via":"str","out":l.tag()}));
    // the same through a YAML value, when the text is YAML at all
    if let Ok(v) = serde_yaml::from_str::<serde_yaml::Value>(&text) {
        let l2 = load_value(v.clone());
        out.ev(json!({"ev":"fload","via":"value","out":l2.tag()}));
        // parse_identifier on every node of the value (core feature)
        let mut nodes = vec![&v];
        let mut n = 0;
        while let Some(y) = nodes.pop() {
            n += 1;
            if n > 200 {
                break;
            }
            let yc = y.clone();
            let r = timed(move || tau_engine::core::parser::parse_identifier(&yc).is_ok());
            out.ev(json!({"ev":"core","f":"parse_identifier","out": r}));
            match y {
                serde_yaml::Value::Mapping(m) => {
                    for (k, v) in m {
                        nodes.push(k);
                        nodes.push(v);
                    }
                }
                serde_yaml::Value::Sequence(s) => nodes.extend(s.iter()),
                serde_yaml::Value::String(s) => {
                    let s1 = s.clone();
                    let r = timed(move || s1.into_identifier().is_ok());
                    out.ev(json!({"ev":"core","f":"into_identifier","out": r}));
                    let s2 = s.clone();
                    let r = timed(move || s2.tokenise().is_ok());
                    out.ev(json!({"ev":"core","f":"tokenise","out": r}));
                }
                _ => {}
            }
        }
    }
    // the rule that loaded must also survive optimise / validate / serialise
    if let Loaded::Ok(rule) = l {
        for sw in all_sws().iter().skip(1).step_by(5) {
            let r = optimise(&rule, sw);
            out.ev(json!({"ev":"core","f":"optimise","out": if r.is_ok() { "ok" } else { "panic" }}));
            if let Ok(r) = r {
                let (o, _, _) = crate::run::validate(&r);
                out.ev(json!({"ev":"core","f":"validate","out": if o == "panic" { "panic" } else { "ok" }}));
            }
        }
    }
}

/// What a mapping KEY was taken to mean, read off the parsed expression: (modifier, count, field).
/// The first field-bearing leaf is the key's field (a one-key mapping has one), `Negate` / `Match` /
/// `Cast` / the cast flag of a `Search` are the key's modifier.
fn key_shape(e: &tau_engine::core::parser::Expression, m: &mut String, n: &mut i64, f: &mut Option<String>) {
    use tau_engine::core::parser::{Expression as E, Match, ModSym};
    if f.is_some() {
        return;
    }
    match e {
        E::Negate(x) => {
            *m = "not".into();
            key_shape(x, m, n, f)
        }
        E::Match(Match::All, x) => {
            *m = "all".into();
            key_shape(x, m, n, f)
        }
        E::Match(Match::Of(c), x) => {
            *m = "of".into();
            *n = *c as i64;
            key_shape(x, m, n, f)
        }
        E::BooleanExpression(l, _, _) => key_shape(l, m, n, f),
        E::BooleanGroup(_, g) => {
            if let Some(x) = g.first() {
                key_shape(x, m, n, f)
            }
        }
        E::Search(_, s, cast) => {
            if *cast && m.is_empty() {
                *m = "str".into();
            }
            *f = Some(s.clone())
        }
        E::Field(s) | E::Identifier(s) => *f = Some(s.clone()),
        E::Cast(s, k) => {
            if m.is_empty() {
                *m = match k {
                    ModSym::Int => "int",
                    ModSym::Flt => "flt",
                    ModSym::Str => "str",
                    ModSym::Not => "not",
                }
                .into();
            }
            *f = Some(s.clone())
        }
        E::Nested(s, _) => *f = Some(s.clone()),
        _ => {}
    }
}

/// {"run":"key","text":cps}: the textual layer of mapping KEYS on its own - parse_identifier on the one-key
/// mappings `{text: 7}` and `{text: [7, 8]}`; the event carries what the key was taken to mean.
pub fn run_key(case: &J, out: &mut Out) {
    out.ev(json!({"ev":"case","c":case}));
    let text = match str_of(&case["text"]) {
        Ok(t) => t,
        Err(e) => {
            out.ev(json!({"ev":"skip","why":cps(&e)}));
            return;
        }
    };
    // both calls on ONE watched thread (a thread per call costs more than the calls)
    let (tx, rx) = std::sync::mpsc::channel();
    let tx2 = tx.clone();
    let text2 = text.clone();
    std::thread::spawn(move || {
        for seq in [false, true] {
            let mut m = serde_yaml::Mapping::new();
            let v = if seq {
                serde_yaml::Value::Sequence(vec![serde_yaml::Value::from(7), serde_yaml::Value::from(8)])
            } else {
                serde_yaml::Value::from(7)
            };
            m.insert(serde_yaml::Value::String(text2.clone()), v);
            let y = serde_yaml::Value::Mapping(m);
            let r = guarded(|| tau_engine::core::parser::parse_identifier(&y));
            let _ = tx2.send((seq, r));
        }
    });
    drop(tx);
    let mut done = [false, false];
    for _ in 0..2 {
        let (seq, ev) = match rx.recv_timeout(LOAD_TIMEOUT) {
            Err(_) => break,
            Ok((seq, Err(()))) => (seq, json!({"ev":"key","seq":seq,"out":"panic","m":"","n":0,"f":[]})),
            Ok((seq, Ok(Err(_)))) => (seq, json!({"ev":"key","seq":seq,"out":"err","m":"","n":0,"f":[]})),
            Ok((seq, Ok(Ok(e)))) => {
                let (mut md, mut n, mut f) = (String::new(), 0i64, None);
                key_shape(&e, &mut md, &mut n, &mut f);
                (seq, match f {
                    Some(f) => json!({"ev":"key","seq":seq,"out":"ok","m":md,"n":n.min(9999),"f":cps(&f)}),
                    None => json!({"ev":"key","seq":seq,"out":"odd","m":md,"n":0,"f":cps(&e.to_string())}),
                })
            }
        };
        done[seq as usize] = true;
        out.ev(ev);
    }
    for seq in [false, true] {
        if !done[seq as usize] {
            out.ev(json!({"ev":"key","seq":seq,"out":"loop","m":"","n":0,"f":[]}));
        }
    }
}
