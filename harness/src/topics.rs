//! Dispatch of cases to runners, by the case's "run" field (default: the life-cycle runner).
use crate::run::*;
use serde_json::Value as J;

pub fn run_case(case: &J, out: &mut Out, ic_build: bool) {
    match case["run"].as_str().unwrap_or("life") {
        "life" => run_life(case, out, ic_build),
        "sched" => crate::sched::run_sched(case, out, ic_build),
        "ident" => crate::textual::run_ident(case, out),
        "fuzz" => crate::textual::run_fuzz(case, out),
        "key" => crate::textual::run_key(case, out),
        "find" => crate::paths::run_find(case, out),
        x => out.ev(serde_json::json!({"ev":"skip","why":crate::enc::cps(&format!("unknown runner {}", x))})),
    }
}

/// Human-readable rendering of a case (used by `tvh one` / ./check --replay).
pub fn explain(case: &J, ic_build: bool) {
    if case.get("src").is_some() {
        match crate::render::rule_yaml(&case["src"], &[], &[], ic_build) {
            Ok(r) => println!("--- rule text ---\n{}", r.text),
            Err(e) => println!("--- rule not renderable: {} ---", e),
        }
    }
    if let Some(ds) = case["docs"].as_array() {
        for (i, d) in ds.iter().enumerate() {
            match crate::docs::doc_yaml(d) {
                Ok(y) => println!("--- doc {} ---\n{}", i, serde_yaml::to_string(&y).unwrap_or_default()),
                Err(e) => println!("--- doc {} not renderable: {} ---", i, e),
            }
        }
    }
}
