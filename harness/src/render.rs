//! Mechanical rendering of a rule source (the JSON form of the TLA+ `src` record) into the YAML
//! text / value the engine loads.  A source that cannot be rendered unambiguously is refused
//! (Err), never rendered approximately.
use crate::enc::*;
use serde_json::Value as J;
use serde_yaml::{Mapping, Number, Value as Y};

pub fn ystr(s: &str) -> Y {
    Y::String(s.to_string())
}

fn tag(v: &J) -> &str {
    v["t"].as_str().unwrap_or("")
}

pub fn num_yaml(n: &J) -> Result<Y, String> {
    let t = num_text(n)?;
    if n["k"] == "i" {
        if let Ok(i) = t.parse::<i64>() {
            return Ok(Y::Number(Number::from(i)));
        }
        if let Ok(u) = t.parse::<u64>() {
            return Ok(Y::Number(Number::from(u)));
        }
        return Err(format!("integer out of 64-bit range: {}", t));
    }
    Ok(Y::Number(Number::from(f64_of(n)?)))
}

/// text of a numeric constant as it is written inside a string pattern or a condition
pub fn num_pat_text(n: &J) -> Result<String, String> {
    let t = num_text(n)?;
    if t == "nan" || t.ends_with("inf") {
        return Err("special float in pattern text".into());
    }
    Ok(t)
}

fn regex_text(atoms: &J) -> Result<String, String> {
    let mut s = String::new();
    for a in atoms.as_array().ok_or("regex atoms")? {
        match tag(a) {
            "c" => {
                let c = char::from_u32(a["c"].as_u64().ok_or("cp")? as u32).ok_or("cp")?;
                if c.is_ascii_alphanumeric() || c == ' ' || !c.is_ascii() {
                    s.push(c);
                } else if c.is_ascii_punctuation() {
                    s.push('\\');
                    s.push(c);
                } else {
                    return Err("unrenderable regex literal".into());
                }
            }
            "dot" => s.push('.'),
            "cls" => {
                let n = a["n"].as_str().ok_or("class name")?;
                if !["d", "D", "s", "S", "w", "W"].contains(&n) {
                    return Err("unknown regex class".into());
                }
                s.push('\\');
                s.push_str(n);
            }
            "set" => {
                s.push('[');
                if a["neg"].as_bool().unwrap_or(false) {
                    s.push('^');
                }
                let cs = a["cs"].as_array().ok_or("set members")?;
                if cs.is_empty() {
                    return Err("empty bracket class".into());
                }
                for c in cs {
                    let c = char::from_u32(c.as_u64().ok_or("cp")? as u32).ok_or("cp")?;
                    if !c.is_ascii_alphanumeric() {
                        return Err("unrenderable bracket member".into());
                    }
                    s.push(c);
                }
                s.push(']');
            }
            "star" => s.push_str(".*"),
            "lazy" => s.push_str(".*?"),
            "bol" => s.push('^'),
            "eol" => s.push('$'),
            x => return Err(format!("unknown regex atom {}", x)),
        }
        if let Some(r) = a.get("rep").and_then(|r| r.as_str()) {
            match (tag(a), r) {
                ("c" | "cls" | "set", "+" | "?" | "*") | ("dot", "+" | "?") => s.push_str(r),
                _ => return Err("repetition on an atom that cannot carry it".into()),
            }
        }
    }
    Ok(s)
}

/// Pattern text.  `ic_build`: rendering for the ignore_case build (no `i` prefix is written and
/// none is interpreted).
pub fn pattern_text(p: &J, ic_build: bool) -> Result<String, String> {
    let k = p["k"].as_str().ok_or("pattern kind")?;
    let ic = p["ic"].as_bool().unwrap_or(false);
    if let Some(raw) = p.get("raw") {
        // raw text, used for totality cases only
        return str_of(raw);
    }
    let body = match k {
        "any" => "*".to_string(),
        "regex" => format!("?{}", regex_text(&p["a"])?),
        _ => {
            let a = str_of(&p["a"])?;
            match k {
                "contains" => {
                    if a.is_empty() {
                        "**".to_string()
                    } else {
                        format!("*{}*", a)
                    }
                }
                "suffix" => {
                    if a.is_empty() || a.ends_with('*') {
                        return Err("ambiguous suffix pattern".into());
                    }
                    format!("*{}", a)
                }
                "prefix" => {
                    if a.is_empty() || a.starts_with('*') {
                        return Err("ambiguous prefix pattern".into());
                    }
                    let c = a.chars().next().unwrap();
                    if "?><='\"".contains(c) || (c == 'i' && !ic && !ic_build) {
                        return Err("ambiguous prefix pattern".into());
                    }
                    if a.ends_with('*') {
                        return Err("ambiguous prefix pattern".into());
                    }
                    format!("{}*", a)
                }
                "exact" => {
                    let needs_quote = a.is_empty()
                        || a.starts_with(|c: char| "i?><=*'\"".contains(c))
                        || a.ends_with(|c: char| "*'\"".contains(c))
                        || p["q"].as_bool().unwrap_or(false);
                    if needs_quote {
                        if p["dq"].as_bool().unwrap_or(false) {
                            format!("\"{}\"", a)
                        } else {
                            format!("'{}'", a)
                        }
                    } else {
                        a
                    }
                }
                x => return Err(format!("unknown pattern kind {}", x)),
            }
        }
    };
    if ic_build {
        // the ignore_case build interprets no prefix; a leading 'i' would be literal text
        Ok(body)
    } else if ic {
        Ok(format!("i{}", body))
    } else {
        if body.starts_with('i') {
            return Err("pattern text would start with an i prefix".into());
        }
        Ok(body)
    }
}

fn op_text(op: &str) -> Result<&'static str, String> {
    Ok(match op {
        "eq" => "=",
        "gt" => ">",
        "ge" => ">=",
        "lt" => "<",
        "le" => "<=",
        x => return Err(format!("unknown op {}", x)),
    })
}

fn cond_op_text(op: &str) -> Result<&'static str, String> {
    Ok(match op {
        "eq" => "==",
        "gt" => ">",
        "ge" => ">=",
        "lt" => "<",
        "le" => "<=",
        x => return Err(format!("unknown op {}", x)),
    })
}

pub fn val_yaml(v: &J, ic_build: bool) -> Result<Y, String> {
    Ok(match tag(v) {
        "pat" => ystr(&pattern_text(v, ic_build)?),
        "num" => num_yaml(&v["n"])?,
        "cmp" => ystr(&format!(
            "{}{}",
            op_text(v["op"].as_str().unwrap_or(""))?,
            num_pat_text(&v["n"])?
        )),
        "bool" => Y::Bool(v["b"].as_bool().ok_or("bool")?),
        "null" => Y::Null,
        "map" => entries_yaml(&v["es"], ic_build)?,
        "list" => {
            let mut out = vec![];
            for m in v["vs"].as_array().ok_or("list members")? {
                out.push(val_yaml(m, ic_build)?);
            }
            Y::Sequence(out)
        }
        "yaml" => crate::docs::doc_yaml(&v["v"])?, // arbitrary YAML shape (totality cases)
        x => return Err(format!("unknown value tag {}", x)),
    })
}

pub fn key_text(e: &J) -> Result<String, String> {
    if let Some(raw) = e.get("rawkey") {
        return str_of(raw);
    }
    let f = str_of(&e["f"])?;
    Ok(match e["m"].as_str().unwrap_or("none") {
        "none" => f,
        "not" => format!("not({})", f),
        "int" => format!("int({})", f),
        "flt" => format!("flt({})", f),
        "str" => format!("str({})", f),
        "all" => format!("all({})", f),
        "of" => format!("of({}, {})", f, e["c"].as_u64().ok_or("of count")?),
        x => return Err(format!("unknown key modifier {}", x)),
    })
}

pub fn entries_yaml(es: &J, ic_build: bool) -> Result<Y, String> {
    let mut m = Mapping::new();
    for e in es.as_array().ok_or("entries")? {
        let k = key_text(e)?;
        if m.contains_key(&ystr(&k)) {
            return Err("duplicate key in mapping".into());
        }
        m.insert(ystr(&k), val_yaml(&e["v"], ic_build)?);
    }
    Ok(Y::Mapping(m))
}

pub fn body_yaml(b: &J, ic_build: bool) -> Result<Y, String> {
    match tag(b) {
        "map" => entries_yaml(&b["es"], ic_build),
        "seq" => {
            let mut out = vec![];
            for m in b["ms"].as_array().ok_or("seq")? {
                out.push(entries_yaml(&m["es"], ic_build)?);
            }
            Ok(Y::Sequence(out))
        }
        "yaml" => crate::docs::doc_yaml(&b["v"]),
        x => Err(format!("unknown body tag {}", x)),
    }
}

fn prec(c: &J) -> u8 {
    match tag(c) {
        "and" => 70,
        "or" => 80,
        "cmp" => 90,
        "not" => 95,
        _ => 100,
    }
}

fn operand_text(o: &J) -> Result<String, String> {
    match tag(o) {
        // redundant parentheses around a lone operand of a comparison
        "par" => Ok(format!("({})", operand_text(&o["e"])?)),
        "cast" => Ok(format!(
            "{}({})",
            o["k"].as_str().ok_or("cast kind")?,
            str_of(&o["f"])?
        )),
        "const" => {
            let t = num_pat_text(&o["n"])?;
            if t.starts_with('-') {
                return Err("negative constant in condition".into());
            }
            Ok(t)
        }
        "par" => Ok(format!("({})", operand_text(&o["e"])?)),
        x => Err(format!("unknown operand {}", x)),
    }
}

/// Condition text with the minimal parentheses that preserve the tree, single spaces.
pub fn cond_text(c: &J) -> Result<String, String> {
    Ok(match tag(c) {
        "text" => str_of(&c["s"])?,
        "id" => str_of(&c["n"])?,
        "par" => format!("({})", cond_text(&c["e"])?),
        "all" => format!("all({})", str_of(&c["n"])?),
        "of" => format!("of({}, {})", str_of(&c["n"])?, c["c"].as_u64().ok_or("count")?),
        "not" => {
            let e = &c["e"];
            if prec(e) < 95 {
                format!("not ({})", cond_text(e)?)
            } else {
                format!("not {}", cond_text(e)?)
            }
        }
        "cmp" => format!(
            "{} {} {}",
            operand_text(&c["l"])?,
            cond_op_text(c["op"].as_str().unwrap_or(""))?,
            operand_text(&c["r"])?
        ),
        t @ ("and" | "or") => {
            let p = prec(c);
            let l = &c["l"];
            let r = &c["r"];
            let lt = if prec(l) < p { format!("({})", cond_text(l)?) } else { cond_text(l)? };
            let rt = if prec(r) <= p { format!("({})", cond_text(r)?) } else { cond_text(r)? };
            format!("{} {} {}", lt, t, rt)
        }
        x => return Err(format!("unknown condition tag {}", x)),
    })
}

pub struct Rendered {
    pub value: Y,
    pub text: String,
}

/// The whole rule: detection (identifiers in written order, then the condition) and examples.
pub fn rule_yaml(src: &J, tps: &[Y], tns: &[Y], ic_build: bool) -> Result<Rendered, String> {
    let mut det = Mapping::new();
    for pair in src["ids"].as_array().ok_or("ids")? {
        let name = str_of(&pair[0])?;
        if name == "condition" || det.contains_key(&ystr(&name)) {
            return Err("bad identifier name".into());
        }
        det.insert(ystr(&name), body_yaml(&pair[1], ic_build)?);
    }
    det.insert(ystr("condition"), ystr(&cond_text(&src["cond"])?));
    let mut root = Mapping::new();
    root.insert(ystr("detection"), Y::Mapping(det));
    root.insert(ystr("true_positives"), Y::Sequence(tps.to_vec()));
    root.insert(ystr("true_negatives"), Y::Sequence(tns.to_vec()));
    let value = Y::Mapping(root);
    let text = serde_yaml::to_string(&value).map_err(|e| e.to_string())?;
    Ok(Rendered { value, text })
}
