------------------------------- MODULE MC_Quant ------------------------------
(***************************************************************************)
(* C08: list quantifiers count the members as written.                     *)
(* Universe: lists of 1..MaxK members; member kinds per position drawn     *)
(* from Families (string members that are batched together, string        *)
(* members of different batch classes, numeric members, booleans, nested   *)
(* mappings); quantifier forms                                             *)
(*   key_plain  f: [..]        key_all  all(f): [..]    key_of  of(f, n)   *)
(*   seq_all    all(X), X a sequence of one-key mappings on different      *)
(*              fields          seq_of   of(X, n)                          *)
(*   idl_all    all(X), X: {f: [..]}                    idl_of  of(X, n)   *)
(* thresholds 0..k+1; documents: every truth vector the family can realise *)
(* on present fields, and the field absent.                                *)
(*   CountLaw   the language-layer verdict of the quantified form equals   *)
(*              the verdict of the EXPLICIT form (one identifier per       *)
(*              member combined with and / or / not and, for of(n), the    *)
(*              disjunction over n-subsets) on every document              *)
(* Emitted: the quantified rule with the explicit rule as an alternative   *)
(* source (`alts`): the trace specification requires one denotation.       *)
(***************************************************************************)
EXTENDS TauGen, TLC, Json

CONSTANTS MaxK

VARIABLES form, fam, k, n, pc
vars == <<form, fam, k, n, pc>>

Forms == {"key_plain", "key_all", "key_of", "seq_all", "seq_of", "idl_all", "idl_of", "seqm_all", "seqm_of"}
Thresholded == {"key_of", "seq_of", "idl_of", "seqm_of"}
(* families of member lists: position i -> member value *)
Letter(i) == <<96 + i>>
Families == {"aho", "mixed", "icmix", "num", "bool", "nested", "restar", "irx"}
Memb(f, i) ==
  CASE f = "aho"   -> ContainsP(Letter(i))
    [] f = "mixed" -> IF i % 2 = 0 THEN Rx(<<RxC(96 + i)>>, FALSE) ELSE ContainsP(Letter(i))
    [] f = "icmix" -> IF i % 2 = 0 THEN Pat("contains", TRUE, <<64 + i>>) ELSE ContainsP(Letter(i))
    (* irx: every member a case-insensitive regex - the whole list is ONE case-insensitive set *)
    [] f = "irx"   -> Rx(<<RxC(64 + i)>>, TRUE)
    [] f = "num"   -> (CASE i = 1 -> NumV(MkInt(FALSE, <<2>>)) [] i = 2 -> CmpV("gt", MkInt(FALSE, <<0>>))
                         [] i = 3 -> CmpV("lt", MkInt(FALSE, <<5>>)) [] i = 4 -> CmpV("ge", MkInt(FALSE, <<2>>))
                         [] OTHER -> CmpV("le", MkInt(FALSE, <<7>>)))
    [] f = "bool"  -> BoolV(i % 2 = 1)
    [] f = "nested" -> MapV(<<Ent(Letter(i), ExactP(<<120>>))>>)
    (* regexes that become IDENTICAL once the optimiser has stripped a leading / trailing ".*":  *)
    (* .*a   a.*   .*a.*   a   (all contain-a), then b                                          *)
    [] f = "restar" -> (CASE i = 1 -> Rx(<<[t |-> "star"], RxC(97)>>, FALSE)
                          [] i = 2 -> Rx(<<RxC(97), [t |-> "star"]>>, FALSE)
                          [] i = 3 -> Rx(<<RxC(98)>>, FALSE)
                          [] i = 4 -> Rx(<<[t |-> "star"], RxC(97), [t |-> "star"]>>, FALSE)
                          [] OTHER -> Rx(<<RxC(99)>>, FALSE))
MaxKOf(f) == IF f = "bool" THEN 2 ELSE MaxK

Init == /\ pc = "gen" /\ form \in Forms /\ fam \in Families /\ k \in 1..MaxK /\ k <= MaxKOf(fam)
        /\ n \in (IF form \in Thresholded THEN 0..(k + 1) ELSE {0})
        /\ (form \in {"seq_all", "seq_of", "seqm_all", "seqm_of"} => fam \in {"aho", "mixed", "num", "bool"})
        /\ (fam \in {"restar", "irx"} => form \in {"key_plain", "key_all", "key_of"})
Next == pc = "gen" /\ pc' = "done" /\ UNCHANGED <<form, fam, k, n>>
Spec == Init /\ [][Next]_vars

-----------------------------------------------------------------------------
F == Fld(0)
A1 == IdN(1)
Membs == [i \in 1..k |-> Memb(fam, i)]
MId(i) == <<77, 48 + i>>            \* "M1".."M9"

QuantSrc ==
  CASE form = "key_plain" -> Src(Id(A1), << <<A1, MapB(<<Ent(F, ListV(Membs))>>)>> >>)
    [] form = "key_all"   -> Src(Id(A1), << <<A1, MapB(<<EntM("all", 0, F, ListV(Membs))>>)>> >>)
    [] form = "key_of"    -> Src(Id(A1), << <<A1, MapB(<<EntM("of", n, F, ListV(Membs))>>)>> >>)
    [] form = "seq_all"   -> Src(AllC(A1), << <<A1, SeqB([i \in 1..k |-> MapB(<<Ent(Fld(i), Membs[i])>>)])>> >>)
    [] form = "seq_of"    -> Src(OfC(A1, n), << <<A1, SeqB([i \in 1..k |-> MapB(<<Ent(Fld(i), Membs[i])>>)])>> >>)
    (* seqm: the mappings of the sequence SHARE a field (f0: z), so the matrix optimisation turns *)
    (* the identifier into a table                                                                *)
    [] form = "seqm_all"  -> Src(AllC(A1), << <<A1, SeqB([i \in 1..k |-> MapB(<<Ent(F, ExactP(<<122>>)), Ent(Fld(i), Membs[i])>>)])>> >>)
    [] form = "seqm_of"   -> Src(OfC(A1, n), << <<A1, SeqB([i \in 1..k |-> MapB(<<Ent(F, ExactP(<<122>>)), Ent(Fld(i), Membs[i])>>)])>> >>)
    [] form = "idl_all"   -> Src(AllC(A1), << <<A1, MapB(<<Ent(F, ListV(Membs))>>)>> >>)
    [] form = "idl_of"    -> Src(OfC(A1, n), << <<A1, MapB(<<Ent(F, ListV(Membs))>>)>> >>)

PerField == form \in {"seq_all", "seq_of", "seqm_all", "seqm_of"}
Shared == form \in {"seqm_all", "seqm_of"}
FieldOf(i) == IF PerField THEN Fld(i) ELSE F
ExplIds == [i \in 1..k |-> <<MId(i), MapB((IF Shared THEN <<Ent(F, ExactP(<<122>>))>> ELSE <<>>) \o <<Ent(FieldOf(i), Membs[i])>>)>>]
SubsetsOf(m) == {S \in SUBSET (1..k) : Cardinality(S) = m}
AndOver(S) == Chain("and", [j \in 1..Cardinality(S) |-> Id(MId(SetSeq(S)[j]))])
ExplCond ==
  IF form \in {"key_plain"} THEN Chain("or", [i \in 1..k |-> Id(MId(i))])
  ELSE IF form \in {"key_all", "seq_all", "idl_all", "seqm_all"} THEN Chain("and", [i \in 1..k |-> Id(MId(i))])
  ELSE IF n = 0 THEN Chain("and", [i \in 1..k |-> NotC(Id(MId(i)))])
  ELSE IF n > k THEN AndC(Id(MId(1)), NotC(Id(MId(1))))             \* never true
  ELSE LET subs == SetSeq(SubsetsOf(n)) IN
       Chain("or", [j \in DOMAIN subs |-> IF Cardinality(subs[j]) = 1 THEN AndOver(subs[j]) ELSE ParC(AndOver(subs[j]))])
ExplSrc == Src(ExplCond, ExplIds)

(* documents *)
RECURSIVE FlatQ(_)
FlatQ(ss) == IF ss = <<>> THEN <<>> ELSE Head(ss) \o FlatQ(Tail(ss))
Vectors == [1..k -> BOOLEAN]
StrDoc(v) == OV(<< <<F, SV(<<122>> \o Flat([i \in 1..k |-> IF v[i] THEN (IF fam = "icmix" /\ i % 2 = 0 THEN <<96 + i>> ELSE Letter(i)) ELSE <<>>]))>> >>)
SharedKv == IF Shared THEN << <<F, SV(<<122>>)>> >> ELSE <<>>
PerFieldDoc(v) == OV(SharedKv \o [i \in 1..k |-> <<Fld(i),
     IF fam = "num" THEN IV(FALSE, IF v[i] THEN <<2>> ELSE <<9>>)
     ELSE IF fam = "bool" THEN BV(IF v[i] THEN i % 2 = 1 ELSE i % 2 = 0)
     ELSE SV(IF v[i] THEN Letter(i) ELSE <<122>>)>>])
(* per-field documents in which the fields of w are ABSENT (matrix rows with absent columns) *)
PartialDoc(v, w) == OV(SharedKv \o FlatQ([i \in 1..k |-> IF w[i] THEN <<>> ELSE << <<Fld(i),
     IF fam = "num" THEN IV(FALSE, IF v[i] THEN <<2>> ELSE <<9>>)
     ELSE IF fam = "bool" THEN BV(IF v[i] THEN i % 2 = 1 ELSE i % 2 = 0)
     ELSE SV(IF v[i] THEN Letter(i) ELSE <<122>>)>> >>]))
NumDocs == {OV(<< <<F, IV(FALSE, <<d>>)>> >>) : d \in {0, 1, 2, 3, 5, 7, 9}}
BoolDocs == {OV(<< <<F, BV(b)>> >>) : b \in BOOLEAN}
NestedDoc(v) == OV(<< <<F, OV(Flat([i \in 1..k |-> << <<Letter(i), SV(IF v[i] THEN <<120>> ELSE <<121>>)>> >>]))>> >>)
DocSet ==
  (IF PerField THEN {PerFieldDoc(v) : v \in Vectors}
                    \cup (IF Shared THEN {PartialDoc(v, w) : v \in Vectors, w \in Vectors} ELSE {})
   ELSE CASE fam \in {"aho", "mixed", "icmix", "irx"} -> {StrDoc(v) : v \in Vectors}
          [] fam = "restar" -> {OV(<< <<F, SV(h)>> >>) : h \in {<<97>>, <<98>>, <<97, 98>>, <<122>>, <<97, 98, 99>>}}
          [] fam = "num" -> NumDocs
          [] fam = "bool" -> BoolDocs
          [] fam = "nested" -> {NestedDoc(v) : v \in Vectors})
  \cup {OV(<<>>)}
Docs == SetSeq(DocSet)

(* of(.., 0) - "no member matches" - is true when some members are false and the others missing, *)
(* while its explicit form with `not` is not (not missing = false): for n = 0 the law is stated  *)
(* on documents where no member is missing, or all are                                          *)
NoneOf == form \in Thresholded /\ n = 0
CountLaw == \A i \in DOMAIN Docs :
   (Cardinality(LangVerdicts(QuantSrc, Docs[i])) = 1 /\ Cardinality(LangVerdicts(ExplSrc, Docs[i])) = 1
    /\ (NoneOf => (Definite(QuantSrc, Docs[i]) \/ Docs[i] = OV(<<>>))))
      => LangVerdicts(QuantSrc, Docs[i]) = LangVerdicts(ExplSrc, Docs[i])
PinnedEnough == Cardinality({i \in DOMAIN Docs : Cardinality(LangVerdicts(QuantSrc, Docs[i])) = 1}) * 2 >= Len(Docs)

Emit == pc = "done" =>
  PrintT("REPLAY " \o ToJson([topic |-> "C08", form |-> form, fam |-> fam, oracle |-> TRUE, wt |-> TRUE,
                               src |-> QuantSrc, alts |-> IF NoneOf /\ Shared THEN <<>> ELSE <<ExplSrc>>, docs |-> Docs,
                               plan |-> [tri |-> FALSE, eng |-> TRUE, scope |-> "sw",
                                        sws |-> IF Shared \/ fam = "restar"
                                                THEN << <<>>, <<TRUE, TRUE, TRUE, TRUE>>, <<FALSE, FALSE, TRUE, FALSE>>,
                                                        <<FALSE, FALSE, FALSE, TRUE>>, <<FALSE, TRUE, FALSE, TRUE>> >>
                                                ELSE << <<>>, <<TRUE, TRUE, TRUE, TRUE>> >>]]))
=============================================================================
