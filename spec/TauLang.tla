------------------------------- MODULE TauLang ------------------------------
(***************************************************************************)
(* Language layer: what a rule MEANS.  Works from the rule as written      *)
(* (condition + identifier bodies as YAML-shaped trees) and a document     *)
(* value; knows nothing about the engine's expression tree.                *)
(*                                                                         *)
(* Results are SETS of admissible three-valued results (DESIGN.md 4.1):    *)
(* a singleton where the rule language pins the result, a larger set where *)
(* it is silent.                                                           *)
(*                                                                         *)
(* Rule source                                                             *)
(*   src  = [cond |-> C, ids |-> Seq(<<name, body>>)]                      *)
(*   C    = [t |-> "id", n] | [t |-> "and"|"or", l, r] | [t |-> "not", e]  *)
(*        | [t |-> "par", e] | [t |-> "all", n] | [t |-> "of", n, c]       *)
(*        | [t |-> "cmp", op, l, r]    operands:                           *)
(*             [t |-> "cast", k |-> "int"|"flt"|"str", f]                  *)
(*             [t |-> "const", n |-> number]                               *)
(*   body = [t |-> "map", es |-> Seq(entry)] | [t |-> "seq", ms |-> Seq(map)] *)
(*   entry= [m |-> "none"|"not"|"int"|"flt"|"str"|"all"|"of", c, f, v]     *)
(*   v    = [t |-> "pat", k, ic, a] | [t |-> "num", n] | [t |-> "cmp", op, n] *)
(*        | [t |-> "bool", b] | [t |-> "null"] | [t |-> "map", es]         *)
(*        | [t |-> "list", vs]                                             *)
(***************************************************************************)
EXTENDS Naturals, Sequences, FiniteSets, TauTri, TauDoc

TF(b) == IF b THEN {"T"} ELSE {"F"}
FM == {"F", "M"}

Lookup(ids, n) ==
  LET idx == {i \in DOMAIN ids : ids[i][1] = n} IN
  IF idx = {} THEN NONE ELSE ids[MinOf(idx)][2]

-----------------------------------------------------------------------------
(* Casts (C09).  Result: [t |-> "num", n] | [t |-> "bad"] (not convertible) *)
(* | [t |-> "unk"] (outside the pinned syntax: anything admissible)         *)
(* | [t |-> "miss"]                                                         *)
CNum(n) == [t |-> "num", n |-> n]
CBad == [t |-> "bad"]
CUnk == [t |-> "unk"]
CMiss == [t |-> "miss"]

IntCast(v) ==
  IF IsNone(v) THEN CMiss
  ELSE CASE v.t = "B" -> CNum(MkInt(FALSE, IF v.b THEN <<1>> ELSE <<0>>))
         [] v.t = "I" -> IF FitsI64(NumOf(v)) THEN CNum(NumOf(v)) ELSE CBad
         [] v.t = "F" -> IF v.sp # "" THEN CBad
                         ELSE LET r == RoundHalfAway(NumOf(v)) IN
                              IF FitsI64(r) THEN CNum(r) ELSE CBad
         [] v.t = "S" -> IF v.s # <<>> /\ v.s[1] = 43 THEN CUnk
                         ELSE LET p == ParseIntText(v.s) IN
                              IF p.k = "none" THEN CBad
                              ELSE IF FitsI64(p) THEN CNum(p) ELSE CBad
         [] OTHER -> CBad

FloatishChars == {43, 45, 46, 69, 101} \cup (48..57)
       \cup {105, 110, 102, 97, 116, 121, 73, 78, 70, 65, 84, 89}   \* inf nan infinity, any case
(* f64::from_str accepts, besides decimal and exponent forms, exactly inf / infinity / nan in    *)
(* any case with an optional sign; a text without a digit that is none of these does not parse *)
HasDigit(t) == \E i \in DOMAIN t : t[i] \in 48..57
Unsigned(t) == IF t # <<>> /\ t[1] \in {43, 45} THEN Tail(t) ELSE t
IsSpecialFloatText(t) == Low(Unsigned(t)) \in {<<105,110,102>>, <<105,110,102,105,110,105,116,121>>, <<110,97,110>>}
Pow2_53 == <<9,0,0,7,1,9,9,2,5,4,7,4,0,9,9,2>>
FltCast(v) ==
  IF IsNone(v) THEN CMiss
  ELSE CASE v.t = "B" -> CNum(MkFlt(FALSE, IF v.b THEN <<1>> ELSE <<0>>, <<>>))
         [] v.t = "I" -> IF DigLe(v.d, Pow2_53) THEN CNum(IntToFlt(NumOf(v))) ELSE CUnk
         [] v.t = "F" -> CNum(NumOf(v))
         [] v.t = "S" -> LET p == ParseFltText(v.s) IN
                         IF p.k # "none" THEN (IF Len(StripLead(p.d)) + Len(p.fr) <= 15 THEN CNum(p) ELSE CUnk)
                         ELSE IF v.s # <<>> /\ \A i \in DOMAIN v.s : v.s[i] \in FloatishChars
                              THEN (IF HasDigit(v.s) \/ IsSpecialFloatText(v.s) THEN CUnk ELSE CBad)
                         ELSE CBad
         [] OTHER -> CBad

(* str(): canonical text; defined only when HasStr(v) *)
HasStr(v) == v.t \in {"S", "B", "I", "F"}
StrCast(v) ==
  CASE v.t = "S" -> v.s
    [] v.t = "B" -> IF v.b THEN <<116,114,117,101>> ELSE <<102,97,108,115,101>>
    [] v.t = "I" -> IntText(NumOf(v))
    [] v.t = "F" -> FltText(NumOf(v))

-----------------------------------------------------------------------------
(* Numeric predicate on a field value.  `want` is the constant.             *)
(* an integer CONSTANT beyond the i64 range is carried by the engine as a float (the parser's    *)
(* as_i64 fails, as_f64 succeeds): it is of the float kind, so a comparison with an integer     *)
(* field is a comparison across kinds (soundness only)                                         *)
ConstKind(c) == IF c.k = "i" /\ ~FitsI64(c) THEN "f" ELSE c.k
SameKind(x, c) == x.k = ConstKind(c)

CmpNums(op, x, c) ==
  IF SameKind(x, c) THEN TF(NumRel(op, x, c))
  ELSE IF NumRel(op, x, c) THEN Tri ELSE FM              \* across kinds: soundness only

NumPred(op, c, v, cast) ==
  IF IsNone(v) THEN {"M"}
  ELSE IF cast = "none"
       THEN IF v.t \in {"I", "F"} THEN CmpNums(op, NumOf(v), c)
            ELSE IF v.t = "A" /\ \E i \in DOMAIN v.vs : v.vs[i].t \in {"I", "F"} THEN Tri
            ELSE FM
  ELSE LET r == IF cast = "int" THEN IntCast(v) ELSE FltCast(v) IN
       CASE r.t = "num" -> CmpNums(op, r.n, c)
         [] r.t = "bad" -> {"F"}                  \* C09: a cast of a value that is not convertible gives false
         [] r.t = "unk" -> Tri
         [] r.t = "miss" -> {"M"}

-----------------------------------------------------------------------------
(* String predicate on a field value; cast = TRUE under str()               *)
HasText(v, cast) == v.t = "S" \/ (cast /\ v.t \in {"B", "I", "F"})
TextOf(v) == StrCast(v)

(* Rust's Display for f64 prints the SHORTEST digits that round-trip, which is the exact decimal *)
(* expansion only for short values; beyond 15 significant digits the text is not modelled.     *)
TextKnown(v) == v.t # "F" \/ v.sp # "" \/ Len(StripLead(v.d)) + Len(StripTrail(v.fr)) <= 15
RECURSIVE AllTextKnown(_)
AllTextKnown(v) == IF v.t = "A" THEN \A i \in DOMAIN v.vs : TextKnown(v.vs[i]) ELSE TextKnown(v)

StrPred(pat, v, cast) ==
  IF IsNone(v) THEN {"M"}
  ELSE IF cast /\ ~AllTextKnown(v) THEN Tri
  ELSE IF HasText(v, cast) THEN TF(Matches(pat, TextOf(v)))
  ELSE IF v.t = "A"
       THEN IF \E i \in DOMAIN v.vs : HasText(v.vs[i], cast) /\ Matches(pat, TextOf(v.vs[i])) THEN {"T"}
            ELSE IF \E i \in DOMAIN v.vs : HasText(v.vs[i], cast) THEN {"F"}
            ELSE FM
  ELSE FM

BoolPred(b, v) == IF IsNone(v) THEN {"M"} ELSE IF v.t = "B" THEN TF(v.b = b) ELSE FM
NullPred(v)    == IF IsNone(v) THEN {"M"} ELSE IF v.t = "N" THEN {"T"} ELSE FM

TrueText  == <<116,114,117,101>>
FalseText == <<102,97,108,115,101>>
ExactPat(s) == [t |-> "pat", k |-> "exact", ic |-> FALSE, a |-> s]

-----------------------------------------------------------------------------
(* One value (scalar, nested mapping) under cast `cast` on object `obj`     *)
RECURSIVE EvalMap(_, _), EvalEntry(_, _), EvalVal(_, _, _, _)

(* v: a non-list value; f: field; cast \in {"none","int","flt","str"} *)
EvalVal(v, f, cast, obj) ==
  LET fv == Find(obj, f) IN
  CASE v.t = "pat"  -> StrPred(v, fv, cast = "str")
    [] v.t = "num"  -> IF cast = "str" THEN StrPred(ExactPat(NumText(v.n)), fv, TRUE)
                       ELSE NumPred("eq", v.n, fv, cast)
    [] v.t = "cmp"  -> NumPred(v.op, v.n, fv, cast)
    [] v.t = "bool" -> IF cast = "int" THEN NumPred("eq", MkInt(FALSE, IF v.b THEN <<1>> ELSE <<0>>), fv, "int")
                       ELSE IF cast = "str" THEN StrPred(ExactPat(IF v.b THEN TrueText ELSE FalseText), fv, TRUE)
                       ELSE BoolPred(v.b, fv)
    [] v.t = "null" -> NullPred(fv)
    [] v.t = "map"  -> IF IsNone(fv) THEN {"M"}
                       ELSE IF fv.t = "O" THEN EvalMap(v.es, fv)
                       ELSE IF fv.t = "A"
                            THEN IF \E i \in DOMAIN fv.vs : fv.vs[i].t = "O" /\ EvalMap(v.es, fv.vs[i]) = {"T"}
                                 THEN {"T"}
                                 ELSE IF \E i \in DOMAIN fv.vs : fv.vs[i].t = "O" /\ "T" \in EvalMap(v.es, fv.vs[i])
                                      THEN Tri ELSE FM
                            ELSE FM

CastOf(m) == IF m \in {"int", "flt", "str"} THEN m ELSE "none"

(* the members of an entry's value, as written *)
Members(e) == IF e.v.t = "list" THEN e.v.vs ELSE <<e.v>>
MemberResults(e, obj) == [i \in DOMAIN Members(e) |-> EvalVal(Members(e)[i], e.f, CastOf(e.m), obj)]

EvalEntry(e, obj) ==
  LET rs == MemberResults(e, obj) IN
  CASE e.m = "all" -> AllS(rs)
    [] e.m = "of"  -> OfS(e.c, rs)
    [] e.m = "not" -> NotS(OrS(rs))
    [] OTHER       -> OrS(rs)                      \* a plain list: some member matches

EvalMap(es, obj) == AndS([i \in DOMAIN es |-> EvalEntry(es[i], obj)])   \* conjunction, written order

EvalBody(body, doc) ==
  IF body.t = "map" THEN EvalMap(body.es, doc)
  ELSE OrS([i \in DOMAIN body.ms |-> EvalMap(body.ms[i].es, doc)])      \* sequence: disjunction

(* the entries all(X)/of(X, n) count (C08) *)
EntryResults(body, doc) ==
  IF body.t = "seq" THEN [i \in DOMAIN body.ms |-> EvalMap(body.ms[i].es, doc)]
  ELSE IF Len(body.es) = 1 /\ body.es[1].m \in {"none", "int", "flt", "str"}
       THEN MemberResults(body.es[1], doc)
  ELSE IF Len(body.es) = 1 THEN <<EvalEntry(body.es[1], doc)>>
  ELSE [i \in DOMAIN body.es |-> EvalEntry(body.es[i], doc)]

-----------------------------------------------------------------------------
(* Condition *)
RECURSIVE OperandVal(_, _)
OperandVal(o, doc) ==
  IF o.t = "par" THEN OperandVal(o.e, doc)
  ELSE IF o.t = "const" THEN CNum(o.n)
  ELSE LET fv == Find(doc, o.f) IN
       IF o.k = "int" THEN IntCast(fv) ELSE IF o.k = "flt" THEN FltCast(fv)
       ELSE IF IsNone(fv) THEN CMiss
       ELSE IF ~HasStr(fv) THEN CBad
       ELSE IF ~TextKnown(fv) THEN CUnk ELSE [t |-> "txt", s |-> StrCast(fv)]

CmpCond(c, doc) ==
  LET x == OperandVal(c.l, doc) y == OperandVal(c.r, doc) IN
  IF x.t = "unk" \/ y.t = "unk" THEN Tri
  ELSE IF x.t = "miss" \/ y.t = "miss" THEN (IF x.t = "bad" \/ y.t = "bad" THEN FM ELSE {"M"})
  ELSE IF x.t = "bad" \/ y.t = "bad" THEN {"F"}       \* C09: not convertible gives false
  ELSE IF x.t = "txt" THEN TF(c.op = "eq" /\ x.s = y.s)
  ELSE CmpNums(c.op, x.n, y.n)

RECURSIVE EvalCond(_, _, _)
EvalCond(c, ids, doc) ==
  CASE c.t = "id"  -> EvalBody(Lookup(ids, c.n), doc)
    [] c.t = "and" -> AndS(<<EvalCond(c.l, ids, doc), EvalCond(c.r, ids, doc)>>)
    [] c.t = "or"  -> OrS(<<EvalCond(c.l, ids, doc), EvalCond(c.r, ids, doc)>>)
    [] c.t = "not" -> NotS(EvalCond(c.e, ids, doc))
    [] c.t = "par" -> EvalCond(c.e, ids, doc)
    [] c.t = "all" -> AllS(EntryResults(Lookup(ids, c.n), doc))
    [] c.t = "of"  -> OfS(c.c, EntryResults(Lookup(ids, c.n), doc))
    [] c.t = "cmp" -> CmpCond(c, doc)

LangEval(src, doc) == EvalCond(src.cond, src.ids, doc)

-----------------------------------------------------------------------------
(* Definite(src, doc): every ATOMIC predicate of the rule has a pinned result that is true or    *)
(* false on this document - nothing is missing, nothing is left open.  On such a document the   *)
(* three-valued tables collapse to two-valued logic, so the order of operands, double negation  *)
(* and regrouping cannot matter.  Used to scope the known findings about operand order.         *)
RECURSIVE MapAtoms(_, _), ValAtoms(_, _, _, _)
ValAtoms(v, f, cast, obj) ==
  IF v.t = "map"
  THEN LET fv == Find(obj, f) IN
       IF IsNone(fv) THEN {{"M"}}
       ELSE IF fv.t = "O" THEN MapAtoms(v.es, fv)
       ELSE IF fv.t = "A" /\ \A i \in DOMAIN fv.vs : fv.vs[i].t = "O"
            \* the block's own result is an atom too: over an EMPTY array it is left open (false or
            \* missing) although there is no element whose predicates could be indefinite
            THEN UNION {MapAtoms(v.es, fv.vs[i]) : i \in DOMAIN fv.vs} \cup {{"F"}} \cup {EvalVal(v, f, cast, obj)}
       ELSE {FM}
  ELSE {EvalVal(v, f, cast, obj)}
(* a quantifier is an "atom" too: of(.., n) whose count is not reached yields a non-true value    *)
(* that the language leaves open (the engine: missing when no operand was false), even when      *)
(* every member is definite                                                                    *)
EntryAtoms(e, obj) == UNION {ValAtoms(Members(e)[i], e.f, CastOf(e.m), obj) : i \in DOMAIN Members(e)}
                      \cup (IF e.m \in {"all", "of"} THEN {EvalEntry(e, obj)} ELSE {})
MapAtoms(es, obj) == UNION {EntryAtoms(es[i], obj) : i \in DOMAIN es}
BodyAtoms(body, doc) == IF body.t = "map" THEN MapAtoms(body.es, doc)
                        ELSE UNION {MapAtoms(body.ms[i].es, doc) : i \in DOMAIN body.ms}
RECURSIVE CondAtoms(_, _, _)
CondAtoms(c, ids, doc) ==
  CASE c.t = "id" -> BodyAtoms(Lookup(ids, c.n), doc)
    [] c.t = "all" -> BodyAtoms(Lookup(ids, c.n), doc) \cup {AllS(EntryResults(Lookup(ids, c.n), doc))}
    [] c.t = "of" -> BodyAtoms(Lookup(ids, c.n), doc) \cup {OfS(c.c, EntryResults(Lookup(ids, c.n), doc))}
    [] c.t \in {"and", "or"} -> CondAtoms(c.l, ids, doc) \cup CondAtoms(c.r, ids, doc)
    [] c.t \in {"not", "par"} -> CondAtoms(c.e, ids, doc)
    [] c.t = "cmp" -> {CmpCond(c, doc)}
Definite(src, doc) == \A r \in CondAtoms(src.cond, src.ids, doc) : r = {"T"} \/ r = {"F"}
VerdictSet(S) == {Verdict(r) : r \in S}
LangVerdicts(src, doc) == VerdictSet(LangEval(src, doc))

=============================================================================
