SPECIFICATION TrSpec
POSTCONDITION TraceAccepted
CHECK_DEADLOCK FALSE
