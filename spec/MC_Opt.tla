------------------------------- MODULE MC_Opt --------------------------------
(***************************************************************************)
(* C01 / C02 at design level: the transcribed parser, solver and optimiser *)
(* (TauEngine, TauOpt) on a bounded universe of rules x documents x all 16 *)
(* switch sets.                                                            *)
(* Universe: conditions over up to three identifiers (and, or, not,        *)
(* grouping, all(), of()); identifier bodies from Bodies (one key, two     *)
(* keys, nested block, batched list, sequence of mappings, number, not(k), *)
(* regex, case-insensitive pattern); documents: field f absent / strings / *)
(* number / object / array of objects, field g absent / strings.           *)
(*   NoPanic    no switch set makes evaluation reach an unreachable arm    *)
(*   DenStable  every switch set yields the verdict of the not-optimised   *)
(*              rule - on every document where all predicates are definite *)
(*              or the rule has no negation context - except under the     *)
(*              structural known findings (TauKnown)                       *)
(*   EngInLang  the not-optimised engine's three-valued result lies in the *)
(*              language layer's admissible set, except under the known    *)
(*              findings about batches                                     *)
(***************************************************************************)
EXTENDS TauOpt, TauKnown, TauGen, TLC, Json

CONSTANTS Small,     \* TRUE: the first six bodies only (quick tier)
          Universe   \* "A": the general universe; "B": predicates on ONE field that differ in a flag
                     \* (str() cast, case flag, int() keys in matrix rows, negation-only conjunctions)

VARIABLES cond, b1, b2, b3, pc
vars == <<cond, b1, b2, b3, pc>>

F == <<102>>  G == <<103>>  KA == <<97>>
X == <<120>>  Y == <<121>>
A == IdN(1)  B == IdN(2)  C == IdN(3)

AllBodies == <<
  MapB(<<Ent(F, ExactP(X))>>),
  MapB(<<Ent(G, ExactP(X))>>),
  MapB(<<Ent(F, ExactP(X)), Ent(G, ExactP(X))>>),
  MapB(<<Ent(F, MapV(<<Ent(KA, ExactP(X))>>))>>),
  MapB(<<Ent(F, ListV(<<ExactP(X), ContainsP(Y)>>))>>),
  SeqB(<<MapB(<<Ent(F, ExactP(X))>>), MapB(<<Ent(G, ExactP(X))>>)>>),
  MapB(<<Ent(F, NumV(MkInt(FALSE, <<1>>)))>>),
  MapB(<<EntM("not", 0, F, ExactP(X))>>),
  MapB(<<Ent(F, Rx(<<[t |-> "star"], RxC(120)>>, FALSE))>>),
  MapB(<<Ent(F, Pat("exact", TRUE, X))>>),
  MapB(<<Ent(G, ContainsP(X)), Ent(F, MapV(<<Ent(KA, AnyP)>>))>>)
>>
D4 == <<52>>  D5 == <<53>>
Five == MkInt(FALSE, <<5>>)
FlagBodies == <<
  MapB(<<EntM("str", 0, F, Pat("prefix", FALSE, D4))>>),                                  \* str(f): '4*'
  MapB(<<Ent(F, Pat("prefix", FALSE, D5))>>),                                             \* f: '5*'
  MapB(<<Ent(F, NumV(Five))>>),                                                           \* f: 5
  MapB(<<Ent(F, ListV(<<Pat("prefix", FALSE, X), Pat("suffix", FALSE, Y)>>))>>),          \* a list ...
  MapB(<<Ent(F, ListV(<<Pat("prefix", TRUE, X), Pat("suffix", TRUE, Y)>>))>>),            \* ... and its case-insensitive twin
  MapB(<<EntM("int", 0, F, NumV(Five)), Ent(G, ExactP(X))>>),                             \* int(f): 5, g: x
  MapB(<<EntM("int", 0, F, CmpV("gt", MkInt(FALSE, <<4>>))), Ent(G, ExactP(Y))>>),        \* int(f): '>4', g: y
  MapB(<<EntM("not", 0, F, ExactP(X)), EntM("not", 0, G, ExactP(X))>>),                   \* not(f): x, not(g): x
  SeqB(<<MapB(<<EntM("int", 0, F, NumV(Five)), Ent(G, ExactP(X))>>),
         MapB(<<EntM("str", 0, F, Pat("prefix", FALSE, D5)), Ent(G, ExactP(Y))>>)>>)
>>
Bodies == IF Universe = "B" THEN {FlagBodies[i] : i \in (IF Small THEN {1, 2, 3, 6, 8} ELSE DOMAIN FlagBodies)}
          ELSE {AllBodies[i] : i \in (IF Small THEN 1..6 ELSE DOMAIN AllBodies)}

CondsB == { Id(A), NotC(Id(A)), AndC(Id(A), Id(B)), OrC(Id(A), Id(B)), NotC(ParC(AndC(Id(A), Id(B)))),
            OrC(OrC(Id(A), Id(B)), Id(C)), AndC(NotC(Id(A)), NotC(Id(B))) }
CondsA == {
  Id(A), NotC(Id(A)), AndC(Id(A), Id(B)), OrC(Id(A), Id(B)), NotC(ParC(AndC(Id(A), Id(B)))),
  OrC(OrC(Id(A), Id(B)), Id(C)), OrC(ParC(AndC(Id(A), Id(B))), Id(C)),
  OrC(ParC(AndC(Id(A), Id(B))), ParC(AndC(Id(A), Id(C)))),
  AndC(NotC(Id(A)), Id(B)), AllC(A), OfC(A, 1), OfC(A, 0), AndC(AndC(Id(A), Id(B)), Id(C))
}
Conds == IF Universe = "B" THEN CondsB ELSE CondsA
RECURSIVE UsesC(_)
UsesC(c) == CASE c.t = "id" -> {c.n} [] c.t \in {"all", "of"} -> {c.n}
              [] c.t \in {"and", "or"} -> UsesC(c.l) \cup UsesC(c.r)
              [] c.t \in {"not", "par"} -> UsesC(c.e) [] OTHER -> {}

Dflt == MapB(<<Ent(F, ExactP(X))>>)
(* the universe is built in steps (condition, then one body per step) so that TLC's workers share *)
(* the enumeration; the invariants are evaluated on complete rules (pc = 3)                      *)
Init == cond \in Conds /\ b1 = Dflt /\ b2 = Dflt /\ b3 = Dflt /\ pc = 0
Next == \/ pc = 0 /\ b1' \in Bodies /\ pc' = 1 /\ UNCHANGED <<cond, b2, b3>>
        \/ pc = 1 /\ b2' \in (IF B \in UsesC(cond) THEN Bodies ELSE {Dflt}) /\ pc' = 2 /\ UNCHANGED <<cond, b1, b3>>
        \/ pc = 2 /\ b3' \in (IF C \in UsesC(cond) THEN Bodies ELSE {Dflt}) /\ pc' = 3 /\ UNCHANGED <<cond, b1, b2>>
Spec == Init /\ [][Next]_vars

TheSrc == Src(cond, << <<A, b1>>, <<B, b2>>, <<C, b3>> >>)

FValsA == { [t |-> "absent"], SV(X), SV(Y), SV(X \o Y), IV(FALSE, <<1>>),
           OV(<< <<KA, SV(X)>> >>), OV(<< <<KA, SV(Y)>> >>), OV(<<>>),
           AV(<<OV(<<>>), OV(<< <<KA, SV(X)>> >>)>>) }
FValsB == { [t |-> "absent"], SV(D5), SV(D4 \o X), SV(X), SV(<<88>>), SV(X \o Y), IV(FALSE, <<5>>), IV(FALSE, <<5, 0>>),
            BV(TRUE), FV(FALSE, <<5>>, <<2>>) }
FVals == IF Universe = "B" THEN FValsB ELSE FValsA
GVals == { [t |-> "absent"], SV(X), SV(Y) }
DocSet == { OV((IF fv.t = "absent" THEN <<>> ELSE << <<F, fv>> >>) \o (IF gv.t = "absent" THEN <<>> ELSE << <<G, gv>> >>)) :
              fv \in FVals, gv \in GVals }
Sws == [1..4 -> BOOLEAN]

Structural == DevIdentListBatch(TheSrc) \/ DevFlattenSeq(TheSrc) \/ DevMergeBatch(TheSrc) \/ DevQuantPartialBatch(TheSrc)

NoPanic == pc = 3 => \A sw \in Sws, d \in DocSet : EngEvalOpt(TheSrc, sw, d) # "P"

DenStable == pc = 3 =>
  \A d \in DocSet :
     LET base == EngEvalOpt(TheSrc, <<>>, d) IN
     (~Structural /\ (Definite(TheSrc, d) \/ ~HasNegCtx(TheSrc))) =>
        \A sw \in Sws : LET r == EngEvalOpt(TheSrc, sw, d) IN
                        r = "U" \/ base = "U" \/ (r = "T") = (base = "T")

EngInLang == pc = 3 =>
  \A d \in DocSet :
     LET r == EngEvalOpt(TheSrc, <<>>, d) IN
     r = "U" \/ r \in LangEval(TheSrc, d) \/ Structural \/ DevQuantBatchArray(TheSrc, d)

(* a diagonal of the universe is replayed against the real optimiser: all 17 switch states,    *)
(* verdicts compared with this model event by event (rule "model_drift")                       *)
Docs == SetSeq(DocSet)
AllSw == <<<<>>>> \o SetSeq({<<a, b, c, d>> : a \in BOOLEAN, b \in BOOLEAN, c \in BOOLEAN, d \in BOOLEAN})
(* universe B is replayed in full when its bodies are pairwise different (the flags only interact   *)
(* across different predicates)                                                                  *)
EmitThis == IF Universe = "B"
            THEN (B \notin UsesC(cond) \/ b2 # b1) /\ (C \notin UsesC(cond) \/ (b3 # b1 /\ b3 # b2))
            ELSE b2 \in {b1, Dflt} /\ b3 \in {b1, Dflt}
Emit == (pc = 3 /\ EmitThis) =>
  PrintT("REPLAY " \o ToJson([topic |-> "C01", form |-> "mc_opt", oracle |-> TRUE, wt |-> TRUE,
                               src |-> TheSrc, docs |-> Docs,
                               plan |-> [tri |-> FALSE, eng |-> TRUE, sws |-> AllSw]]))
=============================================================================
