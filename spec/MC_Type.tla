------------------------------- MODULE MC_Type -------------------------------
(***************************************************************************)
(* The static semantics of identifier bodies (TauType), exhaustively within *)
(* a bound: every key modifier x every value of the universe                *)
(*   scalars   bool, null, integer, float, integer beyond i64, integer and  *)
(*             float comparison patterns, a string pattern                  *)
(*   lists     every list of 0..MaxList scalars / a nested mapping / a list *)
(*   mappings  a nested mapping that is well formed, one that is not, empty *)
(* and the body shapes (mapping, sequence of mappings, empty ones).         *)
(* Invariants (laws of the static semantics itself):                        *)
(*   QuantStricter   what loads under all(k)/of(k, n) loads under the plain *)
(*                   key                                                    *)
(*   CastStricter    what loads under int(k)/str(k)/flt(k)/not(k) loads     *)
(*                   under the plain key                                    *)
(*   NullNeutral     adding a null member never changes whether a list loads*)
(* Emitted: one rule per (modifier, value) - `typed`, so that the trace     *)
(* specification decides the load outcome with TauType.                     *)
(***************************************************************************)
EXTENDS TauGen, TauType, TLC, Json

CONSTANTS MaxList

VARIABLES m, v, pc
vars == <<m, v, pc>>

I(d) == MkInt(FALSE, d)
Big == MkInt(FALSE, <<9,2,2,3,3,7,2,0,3,6,8,5,4,7,7,5,8,0,8>>)     \* 2^63
Scalars == { BoolV(TRUE), NullV, NumV(I(<<5>>)), NumV(MkFlt(FALSE, <<1>>, <<5>>)), NumV(Big),
             CmpV("gt", I(<<1>>)), CmpV("le", MkFlt(FALSE, <<1>>, <<5>>)), ContainsP(<<120>>) }
GoodMap == MapV(<<Ent(<<120>>, ExactP(<<97>>))>>)
BadMap  == MapV(<<EntM("int", 0, <<120>>, ExactP(<<97>>))>>)          \* int(x): a string pattern
ListMembers == Scalars \cup {GoodMap, ListV(<<BoolV(TRUE)>>)}
Lists == UNION {{ListV(vs) : vs \in [1..n -> ListMembers]} : n \in 0..MaxList}
Values == Scalars \cup Lists \cup {GoodMap, BadMap, MapV(<<>>)}
Mods == {"none", "not", "int", "flt", "str", "all", "of"}

Init == m \in Mods /\ v \in Values /\ pc = "gen"
Next == pc = "gen" /\ pc' = "done" /\ UNCHANGED <<m, v>>
Spec == Init /\ [][Next]_vars

E(mm) == EntM(mm, 1, <<102>>, v)
QuantStricter == (EntryOk(E("all")) \/ EntryOk(E("of"))) => EntryOk(E("none"))
CastStricter == \A mm \in {"int", "flt", "str", "not"} : EntryOk(E(mm)) => EntryOk(E("none"))
NullNeutral == (v.t = "list" /\ v.vs # <<>>) =>
                 \A mm \in Mods : EntryOk(EntM(mm, 1, <<102>>, ListV(Append(v.vs, NullV)))) = EntryOk(E(mm))

A1 == IdN(1)
Body == MapB(<<E(m)>>)
CaseSrc == Src(Id(A1), << <<A1, Body>> >>)
Doc == OV(<< <<<<102>>, SV(<<120>>)>> >>)
Emit == pc = "done" =>
  PrintT("REPLAY " \o ToJson([topic |-> "typ", form |-> IF BodiesOk(CaseSrc) THEN "loads" ELSE "rejected",
                               oracle |-> FALSE, wt |-> FALSE, typed |-> TRUE, src |-> CaseSrc, docs |-> <<Doc, OV(<<>>)>>,
                               plan |-> [tri |-> FALSE, sws |-> << <<>>, <<TRUE, TRUE, TRUE, TRUE>> >>]]))
=============================================================================
