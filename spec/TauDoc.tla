------------------------------- MODULE TauDoc -------------------------------
(***************************************************************************)
(* Documents as tagged trees and field-path resolution (value.rs:          *)
(* Object::find).                                                           *)
(*                                                                         *)
(*  [t |-> "S", s |-> Str]                string                            *)
(*  [t |-> "I", neg, d]                   integer (Int or UInt in Rust)     *)
(*  [t |-> "F", neg, d, fr, sp]           float                             *)
(*  [t |-> "B", b]  [t |-> "N"]           boolean, null                     *)
(*  [t |-> "A", vs |-> Seq(value)]        array                             *)
(*  [t |-> "O", kv |-> Seq(<<key, value>>)]   object, keys are Str          *)
(* A lookup result is a value or the string "none".                         *)
(***************************************************************************)
EXTENDS Naturals, Sequences, TauNum

NONE == [t |-> "none"]
IsNone(v) == v.t = "none"

NumOf(v) == IF v.t = "I" THEN MkInt(v.neg, v.d)
            ELSE [k |-> "f", neg |-> v.neg, d |-> v.d, fr |-> v.fr, sp |-> v.sp]

(* object member by exact key; first entry wins (keys are unique in generated documents) *)
Member(o, key) ==
  IF o.t # "O" THEN NONE
  ELSE LET idx == {i \in DOMAIN o.kv : o.kv[i][1] = key} IN
       IF idx = {} THEN NONE ELSE o.kv[MinOf(idx)][2]

-----------------------------------------------------------------------------
(* Path syntax.  A key is split on '.' (46); a segment "name[i]" (91, 93)   *)
(* indexes an array.                                                        *)

RECURSIVE SplitOn(_, _)
SplitOn(s, c) ==
  LET idx == {i \in DOMAIN s : s[i] = c} IN
  IF idx = {} THEN <<s>>
  ELSE LET p == MinOf(idx) IN <<SubSeq(s, 1, p - 1)>> \o SplitOn(SubSeq(s, p + 1, Len(s)), c)

IsIndexed(seg) == seg # <<>> /\ seg[Len(seg)] = 93 /\ \E i \in DOMAIN seg : seg[i] = 91

(* a well-formed segment: name  |  name[digits]   with a non-empty name free of . [ ] *)
PlainName(n) == n # <<>> /\ \A i \in DOMAIN n : n[i] \notin {46, 91, 93}
SegName(seg) == IF IsIndexed(seg) THEN SubSeq(seg, 1, MinOf({i \in DOMAIN seg : seg[i] = 91}) - 1) ELSE seg
SegIdxText(seg) == SubSeq(seg, MinOf({i \in DOMAIN seg : seg[i] = 91}) + 1, Len(seg) - 1)
WellFormedSeg(seg) == IF IsIndexed(seg) THEN PlainName(SegName(seg)) /\ AllDigits(SegIdxText(seg))
                      ELSE PlainName(seg)
WellFormedPath(key) == \A i \in DOMAIN SplitOn(key, 46) : WellFormedSeg(SplitOn(key, 46)[i])
(* a key whose every segment is well formed or EMPTY (`a.`, `.a`, `a..b`): the empty name is an  *)
(* ordinary member name, so the descent still says what the key addresses                        *)
(* ... or `name[text]` whose index text is not a number (`tags[]`, `tags[first]`, `list[*]`):  *)
(* there is no such element, the field is missing - never element 0, never the array itself     *)
(* ... including a signed index (`a[+1]`) and a second index group (`a[1][2]`: the text between  *)
(* the first `[` and the last `]` is `1][2`, not a number): such a key is never another spelling *)
(* of `a[1]`                                                                                   *)
BadIndexSeg(seg) == IsIndexed(seg) /\ PlainName(SegName(seg)) /\ ~AllDigits(SegIdxText(seg))
                    /\ \A i \in DOMAIN SegIdxText(seg) : SegIdxText(seg)[i] # 46
CheckablePath(key) == \A i \in DOMAIN SplitOn(key, 46) :
                         LET seg == SplitOn(key, 46)[i] IN seg = <<>> \/ WellFormedSeg(seg) \/ BadIndexSeg(seg)

(* small decimal text -> Nat (indices in checked universes are < 10^4) *)
RECURSIVE DigVal(_)
DigVal(d) == IF d = <<>> THEN 0 ELSE DigVal(SubSeq(d, 1, Len(d) - 1)) * 10 + d[Len(d)]

(* Language layer: descend from `cur` through the segments; every step must  *)
(* exist and have the right shape, otherwise the field is missing.           *)
RECURSIVE Descend(_, _)
Descend(cur, segs) ==
  IF segs = <<>> THEN cur
  ELSE LET seg == Head(segs) IN
    IF IsIndexed(seg) /\ ~AllDigits(SegIdxText(seg)) THEN NONE
    ELSE IF IsIndexed(seg)
    THEN LET a == Member(cur, SegName(seg))
             i == DigVal(ToDigits(StripLead(SegIdxText(seg)))) IN
         IF a.t = "A" /\ Len(StripLead(SegIdxText(seg))) <= 4 /\ i + 1 <= Len(a.vs)
         THEN Descend(a.vs[i + 1], Tail(segs)) ELSE NONE
    ELSE LET m == Member(cur, seg) IN
         IF IsNone(m) THEN NONE ELSE Descend(m, Tail(segs))

Find(doc, key) == Descend(doc, SplitOn(key, 46))

(* Engine layer: the loop of Object::find with its Option<Value> cursor.     *)
(* With "restart" in dev the cursor is the code's: a failed step leaves      *)
(* v = None, which the next iteration reads as "still at the root".          *)
RECURSIVE EngWalk(_, _, _, _)
EngWalk(root, v, segs, dev) ==
  IF segs = <<>> THEN v
  ELSE LET seg == Head(segs)
           base == IF IsNone(v) THEN root ELSE v
           stop(x) == IF IsNone(x) /\ "find_restarts_at_root" \notin dev THEN TRUE ELSE FALSE
       IN
    IF ~IsNone(v) /\ v.t # "O" THEN NONE
    ELSE IF IsIndexed(seg)
    THEN LET a == Member(base, SegName(seg))
             (* the index text the code parses.  Named deviations of the unrepaired code:            *)
             (*  "index_first_group"  k.split('[') looks at the FIRST bracket group only, so          *)
             (*                       `a[1][2]` is read as `a[1]`                                     *)
             (*  "index_plus"         usize::from_str accepts a leading `+`                           *)
             raw == SegIdxText(seg)
             cut == {j \in DOMAIN raw : raw[j] = 93}
             grp == IF "index_first_group" \in dev /\ cut # {} THEN SubSeq(raw, 1, MinOf(cut) - 1) ELSE raw
             txt == IF "index_plus" \in dev /\ grp # <<>> /\ grp[1] = 43 THEN Tail(grp) ELSE grp
             i == DigVal(ToDigits(StripLead(txt))) IN
         IF ~AllDigits(txt) THEN NONE
         ELSE IF a.t # "A" THEN NONE
         ELSE LET nx == IF Len(StripLead(txt)) <= 4 /\ i + 1 <= Len(a.vs) THEN a.vs[i + 1] ELSE NONE IN
              IF stop(nx) THEN NONE ELSE EngWalk(root, nx, Tail(segs), dev)
    ELSE LET m == Member(base, seg) IN
         IF IsNone(v) /\ IsNone(m) THEN NONE              \* root get failed: return None
         ELSE IF stop(m) THEN NONE ELSE EngWalk(root, m, Tail(segs), dev)

EngFind(doc, key, dev) == EngWalk(doc, NONE, SplitOn(key, 46), dev)
=============================================================================
