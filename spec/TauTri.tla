------------------------------- MODULE TauTri -------------------------------
(***************************************************************************)
(* Three-valued logic of tau-engine (solver.rs: SolverResult).             *)
(*                                                                         *)
(* Language layer: the truth tables of the rule language, as functions     *)
(* where the documentation pins the result and as SETS OF ADMISSIBLE       *)
(* RESULTS where it does not (DESIGN.md 4.1).  Every operator also has a   *)
(* set-lifted form so that admissible sets propagate through connectives.  *)
(*                                                                         *)
(* Engine layer: the loops of solver.rs as explicit fold machines          *)
(* (EngAndGroup, EngOrGroup, EngAnd2, EngOr2, EngAllGroup, EngOfGroup) so  *)
(* that TLC can check "loop result \in admissible set" for every vector.   *)
(***************************************************************************)
EXTENDS Naturals, Sequences, FiniteSets, TauBase

Tri == {"T", "F", "M"}

Verdict(r) == r = "T"            \* solver.rs:47  only True is a match

Not(r) == IF r = "T" THEN "F" ELSE IF r = "F" THEN "T" ELSE "F"

Or2(x, y) == IF x = "T" \/ y = "T" THEN "T"
             ELSE IF x = "M" /\ y = "M" THEN "M" ELSE "F"

And2(x, y) == IF x # "T" THEN x ELSE y          \* first non-true

IdxNonTrue(rs) == {i \in DOMAIN rs : rs[i] # "T"}

AndN(rs) == IF IdxNonTrue(rs) = {} THEN "T" ELSE rs[MinOf(IdxNonTrue(rs))]
OrN(rs)  == IF \E i \in DOMAIN rs : rs[i] = "T" THEN "T"
            ELSE IF \E i \in DOMAIN rs : rs[i] = "F" THEN "F" ELSE "M"

Trues(rs)  == Cardinality({i \in DOMAIN rs : rs[i] = "T"})
AllTrue(rs) == \A i \in DOMAIN rs : rs[i] = "T"
NonTrueSet == {"F", "M"}

(* The statement of C06 pins when all()/of() are TRUE.  Their non-true value is pinned here by   *)
(* the same rules the statement gives for the connectives they generalise ("fixed truth tables, *)
(* identically in two-operand, grouped and identifier-list form"):                              *)
(*   all   = and over the operands: the first non-true operand result                           *)
(*   of(n>=1) whose count is not reached = or without a true operand: false if any operand is   *)
(*           false, else missing                                                                *)
(*   of(0) = none true: false if any operand is true, else true if any is false, else missing   *)
AnyIs(rs, x) == \E i \in DOMAIN rs : rs[i] = x
AllAdm(rs) == {AndN(rs)}
OfAdm(n, rs) ==
  IF n >= 1 THEN IF Trues(rs) >= n THEN {"T"}
                 ELSE IF n > Len(rs) THEN NonTrueSet      \* a threshold no list can reach: left open
                 ELSE IF AnyIs(rs, "F") THEN {"F"} ELSE {"M"}
  ELSE IF AnyIs(rs, "T") THEN {"F"} ELSE IF AnyIs(rs, "F") THEN {"T"} ELSE {"M"}

-----------------------------------------------------------------------------
(* Set-lifted forms: operands are SETS of admissible results.  Each is the  *)
(* exact image of the pointwise operator over the product of the operand    *)
(* sets, computed without enumerating the product.                          *)

NotS(S) == {Not(r) : r \in S}

RECURSIVE AndS(_)
AndS(Ss) == IF Ss = <<>> THEN {"T"}
            ELSE (Head(Ss) \ {"T"}) \cup (IF "T" \in Head(Ss) THEN AndS(Tail(Ss)) ELSE {})

OrS(Ss) ==
  (IF \E i \in DOMAIN Ss : "T" \in Ss[i] THEN {"T"} ELSE {})
  \cup (IF (\A i \in DOMAIN Ss : Ss[i] \ {"T"} # {}) /\ (\E i \in DOMAIN Ss : "F" \in Ss[i])
        THEN {"F"} ELSE {})
  \cup (IF \A i \in DOMAIN Ss : "M" \in Ss[i] THEN {"M"} ELSE {})

MinTrues(Ss) == Cardinality({i \in DOMAIN Ss : Ss[i] = {"T"}})
MaxTrues(Ss) == Cardinality({i \in DOMAIN Ss : "T" \in Ss[i]})

AllS(Ss) == AndS(Ss)
(* of(n) over sets, in closed form (the product has 3^k vectors; lists of 130 members occur).   *)
(* minT: trues no choice can avoid; maxT: trues some choice reaches; MinTNoF: fewest trues among *)
(* the choices without a false (an operand that cannot be missing must then be true).           *)
MinTNoF(Ss) == Cardinality({i \in DOMAIN Ss : "M" \notin Ss[i]})
OfS(n, Ss) ==
  IF n >= 1
  THEN (IF MaxTrues(Ss) >= n THEN {"T"} ELSE {})
       \cup (IF n > Len(Ss) THEN NonTrueSet
             ELSE (IF MinTrues(Ss) < n /\ (\E i \in DOMAIN Ss : "F" \in Ss[i]) THEN {"F"} ELSE {})
                  \cup (IF (\A i \in DOMAIN Ss : Ss[i] # {"F"}) /\ MinTNoF(Ss) < n THEN {"M"} ELSE {}))
  ELSE (IF MaxTrues(Ss) >= 1 THEN {"F"} ELSE {})
       \cup (IF (\A i \in DOMAIN Ss : Ss[i] # {"T"}) /\ (\E i \in DOMAIN Ss : "F" \in Ss[i]) THEN {"T"} ELSE {})
       \cup (IF \A i \in DOMAIN Ss : "M" \in Ss[i] THEN {"M"} ELSE {})

(* reference definitions by explicit product, used by MC_Tri to check the   *)
(* closed forms above                                                       *)
Product(Ss) == {rs \in [DOMAIN Ss -> Tri] : \A i \in DOMAIN Ss : rs[i] \in Ss[i]}
AndSRef(Ss) == {AndN(rs) : rs \in Product(Ss)}
OrSRef(Ss)  == {OrN(rs)  : rs \in Product(Ss)}
AllSRef(Ss) == UNION {AllAdm(rs) : rs \in Product(Ss)}
OfSRef(n, Ss) == UNION {OfAdm(n, rs) : rs \in Product(Ss)}

-----------------------------------------------------------------------------
(* Engine layer: the loops of solver.rs, as folds with early exit.          *)

(* BooleanGroup(And, g): solver.rs:60-69 *)
RECURSIVE EngAndGroup(_)
EngAndGroup(rs) == IF rs = <<>> THEN "T"
                   ELSE IF Head(rs) = "T" THEN EngAndGroup(Tail(rs)) ELSE Head(rs)

(* BooleanGroup(Or, g): solver.rs:70-80; res starts Missing *)
RECURSIVE EngOrLoop(_, _)
EngOrLoop(rs, res) == IF rs = <<>> THEN res
                      ELSE IF Head(rs) = "T" THEN "T"
                      ELSE EngOrLoop(Tail(rs), IF Head(rs) = "F" THEN "F" ELSE res)
EngOrGroup(rs) == EngOrLoop(rs, "M")

(* BooleanExpression(l, And, r): solver.rs:537-561 *)
EngAnd2(x, y) == IF x = "F" THEN "F" ELSE IF x = "M" THEN "M"
                 ELSE IF y = "M" THEN "M" ELSE IF y = "T" THEN "T" ELSE "F"
(* BooleanExpression(l, Or, r): solver.rs:562-586 *)
EngOr2(x, y) == IF x = "T" THEN "T"
                ELSE IF y = "T" THEN "T"
                ELSE IF x = "M" /\ y = "M" THEN "M" ELSE "F"
(* Negate: solver.rs:701-709 *)
EngNot(r) == IF r = "T" THEN "F" ELSE IF r = "F" THEN "T" ELSE "F"

(* Match(All, group): solver.rs:603-610 *)
EngAllGroup(rs) == EngAndGroup(rs)

(* Match(Of(c), group): solver.rs:624-648 *)
RECURSIVE EngOfLoop(_, _, _, _)
EngOfLoop(c, rs, count, res) ==
  IF rs = <<>> THEN res
  ELSE IF c = 0
       THEN IF Head(rs) = "T" THEN "F"
            ELSE EngOfLoop(c, Tail(rs), count, IF Head(rs) = "F" THEN "T" ELSE res)
       ELSE IF Head(rs) = "T"
            THEN IF count + 1 >= c THEN "T" ELSE EngOfLoop(c, Tail(rs), count + 1, res)
            ELSE EngOfLoop(c, Tail(rs), count, IF Head(rs) = "F" THEN "F" ELSE res)
EngOfGroup(c, rs) == EngOfLoop(c, rs, 0, "M")

(* match_of on a single non-batched expression: solver.rs:1108-1113,1334 *)
EngOfSingle(c, r) == IF c = 0 THEN (IF r = "T" THEN "F" ELSE IF r = "F" THEN "T" ELSE "M")
                     ELSE IF r = "T" /\ c > 1 THEN "M" ELSE r
=============================================================================
