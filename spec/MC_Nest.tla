------------------------------- MODULE MC_Nest -------------------------------
(***************************************************************************)
(* C10 (second half): a predicate written as a nested mapping.             *)
(* Universe: a block {f: {a: x, b: x}} (one or two keys, plain or under    *)
(* `not`), and every document in which f is                                *)
(*   - an object over {a, b} with each key good / bad / absent             *)
(*   - an ARRAY of 0..MaxArr elements, each such an object or a scalar     *)
(*   - a scalar, or absent.                                                *)
(*   DottedLaw  when f is an object the nested form has the verdict of the *)
(*              dotted form  f.a: x, f.b: x                                *)
(*   ArrayLaw   when f is an array the nested form is true iff SOME object *)
(*              element satisfies the whole block                          *)
(* Emitted: per block one case with the object documents and the dotted    *)
(* writing as an alternative source, one case with the array documents.    *)
(***************************************************************************)
EXTENDS TauGen, TLC, Json

CONSTANTS MaxArr

VARIABLES keys, neg, kind, pc
vars == <<keys, neg, kind, pc>>

KA == <<97>>  KB == <<98>>  F == <<102>>
X == <<120>>  Y == <<121>>

Init == pc = "gen" /\ keys \in {<<KA>>, <<KA, KB>>} /\ neg \in BOOLEAN /\ kind \in {"obj", "arr"}
Next == pc = "gen" /\ pc' = "done" /\ UNCHANGED <<keys, neg, kind>>
Spec == Init /\ [][Next]_vars

A1 == IdN(1)
Cond == IF neg THEN NotC(Id(A1)) ELSE Id(A1)
NestedSrc == Src(Cond, << <<A1, MapB(<<Ent(F, MapV([i \in DOMAIN keys |-> Ent(keys[i], ExactP(X))]))>>)>> >>)
DottedSrc == Src(Cond, << <<A1, MapB([i \in DOMAIN keys |-> Ent(F \o <<46>> \o keys[i], ExactP(X))])>> >>)

Opt == {"good", "bad", "absent"}
ObjOf(va, vb) == OV((IF va = "absent" THEN <<>> ELSE << <<KA, SV(IF va = "good" THEN X ELSE Y)>> >>)
                    \o (IF vb = "absent" THEN <<>> ELSE << <<KB, SV(IF vb = "good" THEN X ELSE Y)>> >>))
Objs == {ObjOf(a, b) : a \in Opt, b \in Opt}
Elems == Objs \cup {SV(X), AV(<<>>)}
DocOf(v) == OV(<< <<F, v>> >>)
ObjDocs == SetSeq({DocOf(o) : o \in Objs}) \o <<DocOf(SV(X)), OV(<<>>)>>
\* every array of 0..MaxArr elements, enumerated by index arithmetic (a recursive set-to-sequence
\* over 1464 arrays overflows the Java stack)
ElemSeq == SetSeq(Elems)
NE == Len(ElemSeq)
RECURSIVE Pow(_, _)
Pow(b, n) == IF n = 0 THEN 1 ELSE b * Pow(b, n - 1)
ArrOf(n, k) == [j \in 1..n |-> ElemSeq[((k \div Pow(NE, j - 1)) % NE) + 1]]
ArrsOfLen(n) == [k \in 1..Pow(NE, n) |-> DocOf(AV(ArrOf(n, k - 1)))]
RECURSIVE ArrsUpTo(_)
ArrsUpTo(n) == IF n = 0 THEN ArrsOfLen(0) ELSE ArrsUpTo(n - 1) \o ArrsOfLen(n)
ArrDocs == ArrsUpTo(MaxArr)

DottedLaw == \A i \in 1..(Len(ObjDocs) - 2) :
                LangVerdicts(NestedSrc, ObjDocs[i]) = LangVerdicts(DottedSrc, ObjDocs[i])
Satisfies(o) == o.t = "O" /\ \A i \in DOMAIN keys : LET m == Member(o, keys[i]) IN ~IsNone(m) /\ m = SV(X)
ArrayLaw == \A i \in DOMAIN ArrDocs :
   LET arr == ArrDocs[i].kv[1][2].vs
       some == \E j \in DOMAIN arr : Satisfies(arr[j])
   IN ("T" \in LangEval(Src(Id(A1), NestedSrc.ids), ArrDocs[i])) = some
      /\ (some => LangEval(Src(Id(A1), NestedSrc.ids), ArrDocs[i]) = {"T"})

Emit == pc = "done" =>
  PrintT("REPLAY " \o ToJson(
     IF kind = "obj"
     THEN [topic |-> "C10", form |-> "nested_obj", oracle |-> TRUE, wt |-> TRUE, src |-> NestedSrc,
           alts |-> <<DottedSrc>>, docs |-> SubSeq(ObjDocs, 1, Len(ObjDocs) - 2),
           plan |-> [tri |-> TRUE, eng |-> TRUE, sws |-> << <<>>, <<TRUE, TRUE, TRUE, TRUE>> >>]]
     ELSE [topic |-> "C10", form |-> "nested_arr", oracle |-> TRUE, wt |-> TRUE, src |-> NestedSrc,
           alts |-> <<>>, docs |-> ArrDocs \o ObjDocs,
           plan |-> [tri |-> TRUE, eng |-> TRUE, sws |-> << <<>>, <<TRUE, TRUE, TRUE, TRUE>> >>]]))
=============================================================================
