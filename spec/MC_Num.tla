------------------------------- MODULE MC_Num --------------------------------
(***************************************************************************)
(* C09: numeric comparisons and casts over the whole 64-bit and double     *)
(* range, on exact decimal digit sequences (TLC's integers are 32-bit).    *)
(* Universe: operators {bare, =, >, >=, <, <=} x constants (i64::MIN, -1,  *)
(* 0, 1, 2, i64::MAX; 0.0 0.5 1.0 1.5 1024.25) x forms (key pattern,       *)
(* int(k), flt(k), str(k), condition comparisons in both orientations and  *)
(* field-to-field) x field values (64-bit boundary integers incl. 2^63 and *)
(* u64::MAX, signed zero, dyadic floats, 2^63 as a float, NaN, +-inf,      *)
(* numeric and non-numeric strings, booleans, null, containers, absent).   *)
(*   Trichotomy / Unions / NaNFalse   laws of the exact order (TauNum)     *)
(*   EngSound    the engine's comparison table (by value representation    *)
(*               Int / UInt / Float with its i64::MAX guards) is exactly   *)
(*               the mathematical relation for same-kind operands and      *)
(*               false across kinds                                        *)
(* Emitted: one case per (form, operator, constant) with every field value *)
(* as a document.                                                          *)
(***************************************************************************)
EXTENDS TauGen, TLC, Json

VARIABLES form, op, c, pc
vars == <<form, op, c, pc>>

I(neg, d) == MkInt(neg, d)
IntConsts == { I(TRUE, MinI64Mag), I(TRUE, <<1>>), I(FALSE, <<0>>), I(FALSE, <<1>>), I(FALSE, <<2>>), I(FALSE, MaxI64) }
FltConsts == { MkFlt(FALSE, <<0>>, <<0>>), MkFlt(FALSE, <<0>>, <<5>>), MkFlt(FALSE, <<1>>, <<0>>),
               MkFlt(FALSE, <<1>>, <<5>>), MkFlt(FALSE, <<1,0,2,4>>, <<2,5>>), MkFlt(TRUE, <<1>>, <<5>>) }
Ops6 == {"bare", "eq", "gt", "ge", "lt", "le"}
RealOp(o) == IF o = "bare" THEN "eq" ELSE o

KeyForms == {"key", "intkey", "fltkey", "strkey"}
CondForms == {"cond_int", "cond_int_rev", "cond_flt", "cond_flt_rev", "cond_int_fields", "cond_flt_fields", "cond_str_fields"}
Forms == KeyForms \cup CondForms

Pow63 == <<9,2,2,3,3,7,2,0,3,6,8,5,4,7,7,5,8,0,8>>
Ok(f, o, k) ==
  CASE f = "key" -> TRUE
    [] f = "intkey" -> k.k = "i"
    [] f = "fltkey" -> k.k = "f" /\ o # "bare"           \* flt(k): 1.5 (bare) is admitted too, below
    [] f = "strkey" -> o = "bare"
    [] f \in {"cond_int", "cond_int_rev"} -> k.k = "i" /\ ~k.neg /\ o # "bare"
    [] f \in {"cond_flt", "cond_flt_rev"} -> k.k = "f" /\ ~k.neg /\ o # "bare"
    [] f \in {"cond_int_fields", "cond_flt_fields"} -> o # "bare" /\ k = I(FALSE, <<0>>)
    [] f = "cond_str_fields" -> o = "eq" /\ k = I(FALSE, <<0>>)

Init == /\ pc = "gen" /\ form \in Forms /\ op \in Ops6 /\ c \in IntConsts \cup FltConsts
        /\ (Ok(form, op, c) \/ (form = "fltkey" /\ op = "bare" /\ c.k = "f"))
Next == pc = "gen" /\ pc' = "done" /\ UNCHANGED <<form, op, c>>
Spec == Init /\ [][Next]_vars

-----------------------------------------------------------------------------
F == Fld(0)   G == Fld(1)
Val == IF op = "bare" THEN NumV(c) ELSE CmpV(op, c)
A1 == IdN(1)
CaseSrc ==
  CASE form = "key"    -> Src(Id(A1), << <<A1, MapB(<<Ent(F, Val)>>)>> >>)
    [] form = "intkey" -> Src(Id(A1), << <<A1, MapB(<<EntM("int", 0, F, Val)>>)>> >>)
    [] form = "fltkey" -> Src(Id(A1), << <<A1, MapB(<<EntM("flt", 0, F, Val)>>)>> >>)
    [] form = "strkey" -> Src(Id(A1), << <<A1, MapB(<<EntM("str", 0, F, Val)>>)>> >>)
    [] form = "cond_int"     -> Src(CmpC(op, CastO("int", F), ConstO(c)), << <<A1, MapB(<<Ent(G, AnyP)>>)>> >>)
    [] form = "cond_int_rev" -> Src(CmpC(op, ConstO(c), CastO("int", F)), << <<A1, MapB(<<Ent(G, AnyP)>>)>> >>)
    [] form = "cond_flt"     -> Src(CmpC(op, CastO("flt", F), ConstO(c)), << <<A1, MapB(<<Ent(G, AnyP)>>)>> >>)
    [] form = "cond_flt_rev" -> Src(CmpC(op, ConstO(c), CastO("flt", F)), << <<A1, MapB(<<Ent(G, AnyP)>>)>> >>)
    [] form = "cond_int_fields" -> Src(CmpC(op, CastO("int", F), CastO("int", G)), << <<A1, MapB(<<Ent(G, AnyP)>>)>> >>)
    [] form = "cond_flt_fields" -> Src(CmpC(op, CastO("flt", F), CastO("flt", G)), << <<A1, MapB(<<Ent(G, AnyP)>>)>> >>)
    [] form = "cond_str_fields" -> Src(CmpC("eq", CastO("str", F), CastO("str", G)), << <<A1, MapB(<<Ent(G, AnyP)>>)>> >>)

T(s) == SV(s)
FieldValues == <<
  IV(TRUE, MinI64Mag), IV(TRUE, <<1>>), IV(FALSE, <<0>>), IV(FALSE, <<1>>), IV(FALSE, <<2>>), IV(FALSE, MaxI64),
  IV(FALSE, Pow63), IV(FALSE, MaxU64),
  FV(TRUE, <<0>>, <<0>>), FV(FALSE, <<0>>, <<0>>), FV(FALSE, <<0>>, <<5>>), FV(FALSE, <<1>>, <<0>>), FV(FALSE, <<1>>, <<5>>),
  FV(FALSE, <<2>>, <<5>>), FV(TRUE, <<1>>, <<5>>), FV(FALSE, <<1,0,2,4>>, <<2,5>>), FV(FALSE, Pow63, <<0>>),
  FV(TRUE, Pow63, <<0>>),
  [t |-> "F", neg |-> FALSE, d |-> <<>>, fr |-> <<>>, sp |-> "nan"],
  [t |-> "F", neg |-> FALSE, d |-> <<>>, fr |-> <<>>, sp |-> "inf"],
  [t |-> "F", neg |-> TRUE, d |-> <<>>, fr |-> <<>>, sp |-> "inf"],
  T(<<49>>), T(<<49,46,53>>), T(<<45,49>>), T(<<32,49>>), T(<<97,98,99>>), T(<<>>), T(DigText(Pow63)),
  T(DigText(MaxI64)), T(<<43,49>>), T(<<49,101,51>>), T(<<105,110,102>>), T(<<48,49>>), T(<<49,46,48>>), T(<<116,114,117,101>>),
  BV(TRUE), BV(FALSE), NV, AV(<<>>), AV(<<IV(FALSE, <<1>>)>>), OV(<<>>) >>

GValues == IF form \in {"cond_int_fields", "cond_flt_fields", "cond_str_fields"}
           THEN <<IV(FALSE, <<1>>), FV(FALSE, <<1>>, <<5>>), T(<<49>>), BV(TRUE)>> ELSE <<T(<<120>>)>>

Docs == Flat([i \in DOMAIN FieldValues |-> [j \in DOMAIN GValues |-> OV(<< <<F, FieldValues[i]>>, <<G, GValues[j]>> >>)]])
        \o <<OV(<< <<G, GValues[1]>> >>), OV(<<>>)>>

-----------------------------------------------------------------------------
(* laws of the exact order, on every pair of numbers of the universe *)
NumsOfDocs == {NumOf(FieldValues[i]) : i \in {j \in DOMAIN FieldValues : FieldValues[j].t \in {"I", "F"}}}
Consts == IntConsts \cup FltConsts
Trichotomy == \A x \in NumsOfDocs, y \in Consts :
   (x.k = y.k /\ ~IsNaN(x)) =>
      Cardinality({o \in {"lt", "eq", "gt"} : NumRel(o, x, y)}) = 1
Unions == \A x \in NumsOfDocs, y \in Consts :
   /\ NumRel("ge", x, y) = (NumRel("gt", x, y) \/ NumRel("eq", x, y))
   /\ NumRel("le", x, y) = (NumRel("lt", x, y) \/ NumRel("eq", x, y))
NaNFalse == \A x \in NumsOfDocs, y \in Consts, o \in Ops : IsNaN(x) => ~NumRel(o, x, y)

(* Engine layer: the comparison table of solver.rs:462-531 by value representation.  A document *)
(* integer is UInt when non-negative (serde_yaml/serde_json), Int when negative; a rule constant *)
(* is Int (i64) or Float.                                                                       *)
Repr(x) == IF x.k = "f" THEN "Float" ELSE IF x.neg /\ StripLead(x.d) # <<>> THEN "Int" ELSE "UInt"
EngCmp(o, x, y) ==     \* x: document number, y: rule constant
  LET rx == Repr(x) ry == IF y.k = "f" THEN "Float" ELSE "Int" IN
  IF rx = "Float" /\ ry = "Float" THEN NumRel(o, x, y)
  ELSE IF rx = "Int" /\ ry = "Int" THEN NumRel(o, x, y)
  ELSE IF rx = "UInt" /\ ry = "Int"
       THEN IF DigLe(x.d, MaxI64) THEN NumRel(o, x, y)          \* x as i64
            ELSE o \in {"gt", "ge"}                              \* above i64::MAX: greater than any i64
  ELSE FALSE
EngSound == \A x \in NumsOfDocs, y \in Consts, o \in Ops :
   /\ (EngCmp(o, x, y) => NumRel(o, x, y))
   /\ (x.k = y.k => EngCmp(o, x, y) = NumRel(o, x, y))

Emit == pc = "done" =>
  PrintT("REPLAY " \o ToJson([topic |-> "C09", form |-> form, oracle |-> TRUE, wt |-> TRUE,
                               src |-> CaseSrc, docs |-> Docs,
                               plan |-> [tri |-> TRUE, eng |-> TRUE, sws |-> << <<>>, <<TRUE, TRUE, TRUE, TRUE>> >>]]))
=============================================================================
