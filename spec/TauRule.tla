------------------------------- MODULE TauRule ------------------------------
(***************************************************************************)
(* The life-cycle state machine of a rule (rule.rs):                       *)
(*                                                                         *)
(*   text --Load--> loaded --Optimise(sw)--> optimised                     *)
(*                     |  Match(doc) / Tri(doc) / Validate / Serialise     *)
(*                                                                         *)
(* The abstract state of a rule is its DENOTATION on the case's documents. *)
(* The language layer (TauLang) says which verdicts a document admits; the *)
(* first observation of a (rule, document) pair binds it (`den`) and every *)
(* later observation - after any optimisation, through any representation, *)
(* from any thread, after serialise/reload - must agree with it            *)
(* (C01, C11, C12, C14).                                                   *)
(*                                                                         *)
(* One case = one rule source.  Several rule OBJECTS are derived from the  *)
(* loaded rule (clone, then optimise with a switch set; a reload).  All    *)
(* share the case's denotation.                                            *)
(***************************************************************************)
EXTENDS Naturals, Sequences, FiniteSets, TLC, TauLang, TauCond, TauType

VARIABLES
  cur,      \* current case: [src, docs, plan, ...]
  phase,    \* "idle" | "loaded" | "failed"
  objs,     \* Seq of [sw, st]: rule objects derived from the loaded rule; st \in {"ok","dead"}
  den,      \* bound denotation: function from a subset of doc indices to BOOLEAN
  prints    \* printed form of the optimised expression, bound per switch set (C12)

rvars == <<cur, phase, objs, den, prints>>

NoSw == <<>>                          \* "not optimised"
IsSw(s) == s = NoSw \/ (Len(s) = 4 /\ \A i \in 1..4 : s[i] \in BOOLEAN)

RInit == /\ cur = [src |-> [cond |-> [t |-> "none"], ids |-> <<>>], docs |-> <<>>]
         /\ phase = "idle" /\ objs = <<>> /\ den = <<>> /\ prints = <<>>

(* A condition may be given as TEXT (C05, C03): its meaning is then the tree the reference     *)
(* grammar assigns to it.                                                                     *)
IdNames(src) == {src.ids[i][1] : i \in DOMAIN src.ids}
IsText(src) == src.cond.t = "text"
ParseText(src) == RefCondOfText(src.cond.s, IdNames(src))
(* the parse of the case's own condition text is computed once, when the case starts (cur.ast) *)
CondAst(src) == IF ~IsText(src) THEN src.cond
                ELSE IF "ast" \in DOMAIN cur /\ src = cur.src THEN cur.ast ELSE ParseText(src)
Ast(src) == [cond |-> CondAst(src), ids |-> src.ids]
TextOk(src) == ~IsErr(CondAst(src))

(* a new case: a fresh rule text *)
PinnedCalc(c, d) == LET srcs == <<c.src>> \o c.alts IN
                    \A i \in DOMAIN srcs : Cardinality(LangVerdicts(srcs[i], c.docs[d])) = 1
NeedsPin(c) == "src" \in DOMAIN c /\ "alts" \in DOMAIN c /\ c.alts # <<>> /\ "oracle" \in DOMAIN c /\ c.oracle
                /\ c.src.cond.t # "text"
NewCase(c) == /\ cur' = (IF "src" \in DOMAIN c /\ IsText(c.src) THEN [ast |-> ParseText(c.src)] @@ c
                         ELSE IF NeedsPin(c) THEN [pin |-> [d \in DOMAIN c.docs |-> PinnedCalc(c, d)]] @@ c
                         ELSE c)
              /\ phase' = "idle" /\ objs' = <<>> /\ den' = <<>> /\ prints' = <<>>


(* which documents of the case have a language-level oracle *)
HasOracle(c) == "oracle" \in DOMAIN c /\ c.oracle /\ "src" \in DOMAIN c
WellTyped(c) == "wt" \in DOMAIN c /\ c.wt

(* Rule::from_str / from_value.  Loading never panics (C04); a source that  *)
(* is well typed by construction loads (C02/C05); the spec is silent on     *)
(* other sources (ok or err).                                               *)
LoadOutcomes(c) == IF "src" \notin DOMAIN c THEN {"ok", "err"}
                   ELSE IF IsText(c.src) /\ "bodies_ok" \in DOMAIN c /\ c.bodies_ok
                   THEN (IF TextOk(c.src) THEN {"ok"} ELSE {"err"})     \* the grammar decides
                   \* `typed`: the static semantics of the bodies (TauType) and the condition's own
                   \* checks decide; the case's condition is a plain tree over defined identifiers
                   ELSE IF "typed" \in DOMAIN c /\ c.typed
                   THEN (IF BodiesOk(c.src) THEN {"ok"} ELSE {"err"})
                   ELSE IF WellTyped(c) THEN {"ok"} ELSE {"ok", "err"}
Load(out) == /\ phase = "idle"
             /\ out \in LoadOutcomes(cur)
             /\ phase' = IF out = "ok" THEN "loaded" ELSE "failed"
             /\ UNCHANGED <<cur, objs, den, prints>>

(* clone + Rule::optimise(sw): a new object; never panics (C01/C03); the    *)
(* denotation is that of the case (C01) - nothing else changes.             *)
SwKey(sw) == sw
PrintBound(sw) == \E i \in DOMAIN prints : prints[i][1] = SwKey(sw)
PrintOf(sw) == prints[CHOOSE i \in DOMAIN prints : prints[i][1] = SwKey(sw)][2]
(* expr: the printed expression, or <<>> when the event does not carry one.  Optimising is a    *)
(* function of (text, switches): the print is the same every time (C12).                        *)
PrintOk(sw, expr) == IF expr = <<>> THEN TRUE ELSE IF ~PrintBound(sw) THEN TRUE ELSE PrintOf(sw) = expr
Optimise(k, sw, out, expr) ==
  /\ phase = "loaded" /\ IsSw(sw) /\ k = Len(objs)
  /\ out = "ok"
  /\ PrintOk(sw, expr)
  /\ objs' = Append(objs, [sw |-> sw, st |-> "ok", src |-> 0])
  /\ prints' = IF expr = <<>> THEN prints ELSE IF PrintBound(sw) THEN prints ELSE Append(prints, <<SwKey(sw), expr>>)
  /\ UNCHANGED <<cur, phase, den>>

(* Which observations must agree?  scope "case" (default): every object of the case - after    *)
(* any optimisation, through any representation, from any thread (C01, C11, C12, C17).          *)
(* scope "sw": objects with the same switch set - an object, its reloads and validate() (C13,  *)
(* C14), so that those checks do not depend on C01.                                            *)
ScopeSw == "plan" \in DOMAIN cur /\ "scope" \in DOMAIN cur.plan /\ cur.plan.scope = "sw"
Cls(k) == IF ScopeSw /\ k + 1 \in DOMAIN objs THEN objs[k + 1].sw ELSE <<>>
(* the source an object was loaded from: 0 = the case's rule, i = alternative i *)
SrcIdx(k) == IF k + 1 \in DOMAIN objs THEN objs[k + 1].src ELSE 0
SrcOf(k) == IF SrcIdx(k) = 0 THEN cur.src ELSE cur.alts[SrcIdx(k)]
AllSrcs == <<cur.src>> \o (IF "alts" \in DOMAIN cur THEN cur.alts ELSE <<>>)
(* Alternative sources are claimed to denote the same only where the rule language pins the     *)
(* verdict of each of them on the document (e.g. of(X, 0) with some entries false and others    *)
(* missing is left open, and its explicit form with `not` may differ there).                    *)
(* computed once per case (cur.pin) when the case has alternative sources and an oracle *)
Pinned(d) == IF "pin" \in DOMAIN cur THEN cur.pin[d] ELSE TRUE
(* documents that differ only in fields the rule does not address share a class (C16) *)
DocCls(d) == IF "dcls" \in DOMAIN cur THEN cur.dcls[d] ELSE d
DK(k, d) == <<Cls(k), IF Pinned(d) THEN 0 ELSE SrcIdx(k), DocCls(d)>>

(* the verdicts the specification allows for object k on document d (1-based)               *)
Allowed(k, d) ==
  (IF HasOracle(cur) /\ TextOk(SrcOf(k)) THEN LangVerdicts(Ast(SrcOf(k)), cur.docs[d]) ELSE BOOLEAN)
  \cap (IF DK(k, d) \in DOMAIN den THEN {den[DK(k, d)]} ELSE BOOLEAN)

Bind(k, d, v) == IF DK(k, d) \in DOMAIN den THEN den
                 ELSE [x \in (DOMAIN den) \cup {DK(k, d)} |-> IF x = DK(k, d) THEN v ELSE den[x]]

(* Rule::matches(&self, doc): pure - the rule objects are unchanged (C12)   *)
Match(k, d, v) ==
  /\ phase = "loaded" /\ k + 1 \in DOMAIN objs /\ d \in DOMAIN cur.docs
  /\ v \in Allowed(k, d)
  /\ den' = Bind(k, d, v)
  /\ UNCHANGED <<cur, phase, objs, prints>>

(* three-valued observation of the whole condition on document d            *)
TriAllowed(d) == IF HasOracle(cur) /\ TextOk(cur.src) THEN LangEval(Ast(cur.src), cur.docs[d]) ELSE Tri
ObserveTri(k, d, r) ==
  /\ phase = "loaded" /\ k + 1 \in DOMAIN objs /\ d \in DOMAIN cur.docs
  /\ r \in TriAllowed(d)
  /\ (IF DK(k, d) \in DOMAIN den THEN den[DK(k, d)] = Verdict(r) ELSE TRUE)
  /\ den' = Bind(k, d, Verdict(r))
  /\ UNCHANGED <<cur, phase, objs, prints>>

-----------------------------------------------------------------------------
(* validate() (C13): a function of the verdicts matches() gives on the rule's own examples.     *)
(* Examples: cur.tps \o cur.tns, each [d |-> doc index] (a mapping) or [raw |-> value] (not a   *)
(* mapping).  Numbered 0.. in that order.                                                      *)
Tps(c) == IF "tps" \in DOMAIN c THEN c.tps ELSE <<>>
Tns(c) == IF "tns" \in DOMAIN c THEN c.tns ELSE <<>>
Examples(c) == Tps(c) \o Tns(c)
IsRaw(ex) == "raw" \in DOMAIN ex
ExDoc(ex) == ex.d + 1
(* The verdict validate() must agree with: the one matches() was OBSERVED to give for the class   *)
(* (den), or - only for cases that ask for it (plan.valpin: the schedules of MC_Life, in which   *)
(* validate() may come before any match) - the one the language layer pins.                      *)
ValPin == "plan" \in DOMAIN cur /\ "valpin" \in DOMAIN cur.plan /\ cur.plan.valpin /\ HasOracle(cur)
OraclePins(k, d) == ValPin /\ TextOk(SrcOf(k)) /\ Cardinality(LangVerdicts(Ast(SrcOf(k)), cur.docs[d])) = 1
VerdictKnown(k, d) == DK(k, d) \in DOMAIN den \/ OraclePins(k, d)
VerdictOf(k, d) == IF DK(k, d) \in DOMAIN den THEN den[DK(k, d)]
                   ELSE CHOOSE v \in LangVerdicts(Ast(SrcOf(k)), cur.docs[d]) : TRUE
(* all example documents have a known verdict *)
ExamplesBound(k) == \A i \in DOMAIN Examples(cur) :
                       IF IsRaw(Examples(cur)[i]) THEN TRUE ELSE VerdictKnown(k, ExDoc(Examples(cur)[i]))
(* The example lists are PUBLIC fields of a rule (rule.rs: true_positives, true_negatives): an    *)
(* object whose lists were exchanged by its owner (action EditExamples) is `swapped`, and         *)
(* validate() is a function of the lists the object holds NOW.                                   *)
Swapped(k) == k + 1 \in DOMAIN objs /\ "swap" \in DOMAIN objs[k + 1] /\ objs[k + 1].swap
IsPositive(k, j) == (j <= Len(Tps(cur))) # Swapped(k)
Failing(k) == {i - 1 : i \in {j \in DOMAIN Examples(cur) :
                 LET ex == Examples(cur)[j] IN
                 IF IsRaw(ex) THEN FALSE
                 ELSE IF IsPositive(k, j) THEN ~VerdictOf(k, ExDoc(ex)) ELSE VerdictOf(k, ExDoc(ex))}}
(* an example without a marker is the document exactly as it is (the same document may stand in  *)
(* both lists as identical values); the error text can only be checked to name the marked ones   *)
Marked(ex) == ~("nomark" \in DOMAIN ex /\ ex.nomark)
HasRaw == \E i \in DOMAIN Examples(cur) : IsRaw(Examples(cur)[i])
ValidateOk(k, out, kind, named) ==
  IF HasRaw THEN out = "err"                       \* a malformed example is an error, not a panic
  ELSE IF Failing(k) = {} THEN out = "ok"
  ELSE out = "err" /\ kind = "Validation" /\ named = {i \in Failing(k) : Marked(Examples(cur)[i + 1])}
Validate(k, out, kind, named) ==
  /\ phase = "loaded" /\ k + 1 \in DOMAIN objs /\ ExamplesBound(k)
  /\ ValidateOk(k, out, kind, named)
  /\ UNCHANGED rvars

(* serde_yaml::to_string(&rule) then Rule::from_str / from_value (C14): the reloaded rule has    *)
(* the same condition, identifiers and examples (`same`), and is a further object of the case - *)
(* its verdicts are checked against the case's denotation like any other object's.             *)
(* An ALTERNATIVE source of the case (cur.alts): a different way of writing the same rule - the *)
(* explicit form of a quantifier (C08), a permutation of operands (C17).  Loaded and optimised  *)
(* like object `from`; it joins that object's class, so its verdicts must be the case's.        *)
LoadAlt(i, from, k, out) ==
  /\ phase = "loaded" /\ from + 1 \in DOMAIN objs /\ k = Len(objs)
  /\ "alts" \in DOMAIN cur /\ i + 1 \in DOMAIN cur.alts
  /\ out = "ok"
  /\ objs' = Append(objs, [sw |-> objs[from + 1].sw, st |-> "ok", src |-> i + 1])
  /\ UNCHANGED <<cur, phase, den, prints>>

(* rule.rs optimise(): `if self.optimised { return self }` - optimising happens ONCE.  A second   *)
(* call on an optimised object, with whatever switches, returns the object unchanged: it prints   *)
(* the same and stays in its class (its switch set is the one of the first call).                *)
ReOptimise(from, k, out, same) ==
  /\ phase = "loaded" /\ from + 1 \in DOMAIN objs /\ k = Len(objs)
  /\ objs[from + 1].st = "ok" /\ objs[from + 1].sw # NoSw
  /\ out = "ok" /\ same
  /\ objs' = Append(objs, [sw |-> objs[from + 1].sw, st |-> "ok", src |-> objs[from + 1].src])
  /\ UNCHANGED <<cur, phase, den, prints>>

(* the owner of a rule object clones it and exchanges the clone's two example lists: a new       *)
(* object of the same class (same tree, same verdicts) whose validate() judges the NEW lists     *)
EditExamples(from, k, out) ==
  /\ phase = "loaded" /\ from + 1 \in DOMAIN objs /\ k = Len(objs)
  /\ objs[from + 1].st = "ok" /\ out = "ok"
  /\ objs' = Append(objs, [swap |-> ~Swapped(from)] @@ objs[from + 1])
  /\ UNCHANGED <<cur, phase, den, prints>>

Serialise(k, out) == /\ phase = "loaded" /\ k + 1 \in DOMAIN objs /\ out = "ok" /\ UNCHANGED rvars
Reload(from, k, out, same) ==
  /\ phase = "loaded" /\ from + 1 \in DOMAIN objs /\ k = Len(objs)
  /\ out = "ok" /\ same
  \* the reloaded rule is parsed afresh from the serialised source: it is an object of the
  \* "not optimised" class whatever was done to the object it was serialised from
  /\ objs' = Append(objs, [sw |-> NoSw, st |-> "ok", src |-> objs[from + 1].src])
  /\ UNCHANGED <<cur, phase, den, prints>>

(* C12 as an action property: matching never changes a rule object *)
Pure == [][(den' # den) => UNCHANGED <<cur, phase, objs, prints>>]_rvars
=============================================================================
