------------------------------- MODULE TauRule ------------------------------
(***************************************************************************)
(* The life-cycle state machine of a rule (rule.rs):                       *)
(*                                                                         *)
(*   text --Load--> loaded --Optimise(sw)--> optimised                     *)
(*                     |  Match(doc) / Tri(doc) / Validate / Serialise     *)
(*                                                                         *)
(* The abstract state of a rule is its DENOTATION on the case's documents. *)
(* The language layer (TauLang) says which verdicts a document admits; the *)
(* first observation of a (rule, document) pair binds it (`den`) and every *)
(* later observation - after any optimisation, through any representation, *)
(* from any thread, after serialise/reload - must agree with it            *)
(* (C01, C11, C12, C14).                                                   *)
(*                                                                         *)
(* One case = one rule source.  Several rule OBJECTS are derived from the  *)
(* loaded rule (clone, then optimise with a switch set; a reload).  All    *)
(* share the case's denotation.                                            *)
(***************************************************************************)
EXTENDS Naturals, Sequences, FiniteSets, TauLang, TauCond

VARIABLES
  cur,      \* current case: [src, docs, plan, ...]
  phase,    \* "idle" | "loaded" | "failed"
  objs,     \* Seq of [sw, st]: rule objects derived from the loaded rule; st \in {"ok","dead"}
  den       \* bound denotation: function from a subset of doc indices to BOOLEAN

rvars == <<cur, phase, objs, den>>

NoSw == <<>>                          \* "not optimised"
IsSw(s) == s = NoSw \/ (Len(s) = 4 /\ \A i \in 1..4 : s[i] \in BOOLEAN)

RInit == /\ cur = [src |-> [cond |-> [t |-> "none"], ids |-> <<>>], docs |-> <<>>]
         /\ phase = "idle" /\ objs = <<>> /\ den = <<>>

(* a new case: a fresh rule text *)
NewCase(c) == /\ cur' = c /\ phase' = "idle" /\ objs' = <<>> /\ den' = <<>>

(* A condition may be given as TEXT (C05, C03): its meaning is then the tree the reference     *)
(* grammar assigns to it.                                                                     *)
IdNames(src) == {src.ids[i][1] : i \in DOMAIN src.ids}
IsText(src) == src.cond.t = "text"
CondAst(src) == IF IsText(src) THEN RefCondOfText(src.cond.s, IdNames(src)) ELSE src.cond
Ast(src) == [cond |-> CondAst(src), ids |-> src.ids]
TextOk(src) == ~IsErr(CondAst(src))

(* which documents of the case have a language-level oracle *)
HasOracle(c) == "oracle" \in DOMAIN c /\ c.oracle
WellTyped(c) == "wt" \in DOMAIN c /\ c.wt

(* Rule::from_str / from_value.  Loading never panics (C04); a source that  *)
(* is well typed by construction loads (C02/C05); the spec is silent on     *)
(* other sources (ok or err).                                               *)
LoadOutcomes(c) == IF IsText(c.src) /\ "bodies_ok" \in DOMAIN c /\ c.bodies_ok
                   THEN (IF TextOk(c.src) THEN {"ok"} ELSE {"err"})     \* the grammar decides
                   ELSE IF WellTyped(c) THEN {"ok"} ELSE {"ok", "err"}
Load(out) == /\ phase = "idle"
             /\ out \in LoadOutcomes(cur)
             /\ phase' = IF out = "ok" THEN "loaded" ELSE "failed"
             /\ UNCHANGED <<cur, objs, den>>

(* clone + Rule::optimise(sw): a new object; never panics (C01/C03); the    *)
(* denotation is that of the case (C01) - nothing else changes.             *)
Optimise(k, sw, out) ==
  /\ phase = "loaded" /\ IsSw(sw) /\ k = Len(objs)
  /\ out = "ok"
  /\ objs' = Append(objs, [sw |-> sw, st |-> "ok"])
  /\ UNCHANGED <<cur, phase, den>>

(* the verdicts the specification allows for document d (1-based)           *)
Allowed(d) ==
  (IF HasOracle(cur) /\ TextOk(cur.src) THEN LangVerdicts(Ast(cur.src), cur.docs[d]) ELSE BOOLEAN)
  \cap (IF d \in DOMAIN den THEN {den[d]} ELSE BOOLEAN)

Bind(d, v) == IF d \in DOMAIN den THEN den ELSE [x \in (DOMAIN den) \cup {d} |-> IF x = d THEN v ELSE den[x]]

(* Rule::matches(&self, doc): pure - the rule objects are unchanged (C12)   *)
Match(k, d, v) ==
  /\ phase = "loaded" /\ k + 1 \in DOMAIN objs /\ d \in DOMAIN cur.docs
  /\ v \in Allowed(d)
  /\ den' = Bind(d, v)
  /\ UNCHANGED <<cur, phase, objs>>

(* three-valued observation of the whole condition on document d            *)
TriAllowed(d) == IF HasOracle(cur) /\ TextOk(cur.src) THEN LangEval(Ast(cur.src), cur.docs[d]) ELSE Tri
ObserveTri(k, d, r) ==
  /\ phase = "loaded" /\ k + 1 \in DOMAIN objs /\ d \in DOMAIN cur.docs
  /\ r \in TriAllowed(d)
  /\ (d \in DOMAIN den => den[d] = Verdict(r))
  /\ den' = Bind(d, Verdict(r))
  /\ UNCHANGED <<cur, phase, objs>>

(* C12 as an action property: matching never changes a rule object *)
Pure == [][(den' # den) => UNCHANGED <<cur, phase, objs>>]_rvars
=============================================================================
