------------------------------- MODULE MC_Fold -------------------------------
(***************************************************************************)
(* Binds the streaming machines of TauFold (whose invariant Apalache        *)
(* proves for every arity) to the recursive folds of TauTri (which the     *)
(* replay stage binds to solver.rs): for every operand vector of at most   *)
(* MaxK results and every threshold 0..MaxK+1 the two give the same value, *)
(* and the value is admissible (AllAdm / OfAdm).                           *)
(***************************************************************************)
EXTENDS TauFold, Sequences, TLC

CONSTANTS MaxK
VARIABLE hist
T == INSTANCE TauTri

MCInit == c \in 0..(MaxK + 1) /\ Init0 /\ hist = <<>>
MCNext == Len(hist) < MaxK /\ \E r \in Tri : Step(r) /\ hist' = Append(hist, r)
MCSpec == MCInit /\ [][MCNext]_<<vars, hist>>

Agree ==
  /\ andRes = T!EngAndGroup(hist)
  /\ orRes = T!EngOrGroup(hist)
  /\ ofRes = T!EngOfGroup(c, hist)
  /\ andRes = T!AndN(hist) /\ orRes = T!OrN(hist)
  /\ andRes \in T!AllAdm(hist) /\ ofRes \in T!OfAdm(c, hist)
  /\ trues = T!Trues(hist) /\ anyF = T!AnyIs(hist, "F") /\ anyM = T!AnyIs(hist, "M")
Inductive == IndInv

(* The set-lifted connectives of the language layer (closed forms, used by the trace             *)
(* specification on lists of any length) equal their definition by explicit product, for EVERY   *)
(* vector of non-empty admissible sets up to length 4 and every threshold - checked once.        *)
NonEmpty == (SUBSET T!Tri) \ {{}}
LiftedAll == \A kk \in 0..4 : \A Ss \in [1..kk -> NonEmpty] :
               /\ T!AndS(Ss) = T!AndSRef(Ss) /\ T!OrS(Ss) = T!OrSRef(Ss) /\ T!AllS(Ss) = T!AllSRef(Ss)
               /\ \A nn \in 0..(kk + 1) : T!OfS(nn, Ss) = T!OfSRef(nn, Ss)
ASSUME LiftedAll
=============================================================================
