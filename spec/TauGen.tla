------------------------------- MODULE TauGen -------------------------------
(***************************************************************************)
(* Constructors for rule sources and documents, shared by the MC_* models  *)
(* that enumerate bounded universes of cases (spec -> impl direction).     *)
(***************************************************************************)
EXTENDS Naturals, Sequences, FiniteSets, TauLang

(* names: "A".."Z" for identifiers, "f0".."f9" for fields *)
IdN(i) == <<64 + i>>
Fld(i) == <<102, 48 + i>>
Ch(c) == <<c>>

SV(s) == [t |-> "S", s |-> s]
IV(neg, d) == [t |-> "I", neg |-> neg, d |-> d]
FV(neg, d, fr) == [t |-> "F", neg |-> neg, d |-> d, fr |-> fr, sp |-> ""]
BV(b) == [t |-> "B", b |-> b]
NV == [t |-> "N"]
AV(vs) == [t |-> "A", vs |-> vs]
OV(kv) == [t |-> "O", kv |-> kv]

Pat(k, ic, a) == [t |-> "pat", k |-> k, ic |-> ic, a |-> a]
ExactP(a) == Pat("exact", FALSE, a)
ContainsP(a) == Pat("contains", FALSE, a)
AnyP == Pat("any", FALSE, <<>>)
Rx(atoms, ic) == Pat("regex", ic, atoms)
RxC(c) == [t |-> "c", c |-> c]
NumV(n) == [t |-> "num", n |-> n]
CmpV(op, n) == [t |-> "cmp", op |-> op, n |-> n]
BoolV(b) == [t |-> "bool", b |-> b]
NullV == [t |-> "null"]
MapV(es) == [t |-> "map", es |-> es]
ListV(vs) == [t |-> "list", vs |-> vs]

Ent(f, v) == [m |-> "none", c |-> 0, f |-> f, v |-> v]
EntM(m, c, f, v) == [m |-> m, c |-> c, f |-> f, v |-> v]
MapB(es) == [t |-> "map", es |-> es]
SeqB(ms) == [t |-> "seq", ms |-> ms]

Id(n) == [t |-> "id", n |-> n]
AndC(l, r) == [t |-> "and", l |-> l, r |-> r]
OrC(l, r) == [t |-> "or", l |-> l, r |-> r]
NotC(x) == [t |-> "not", e |-> x]
ParC(x) == [t |-> "par", e |-> x]
AllC(n) == [t |-> "all", n |-> n]
OfC(n, c) == [t |-> "of", n |-> n, c |-> c]
CmpC(op, l, r) == [t |-> "cmp", op |-> op, l |-> l, r |-> r]
CastO(k, f) == [t |-> "cast", k |-> k, f |-> f]
ConstO(n) == [t |-> "const", n |-> n]

Src(cond, ids) == [cond |-> cond, ids |-> ids]

(* left-associated chain  x1 op x2 op ... xk *)
RECURSIVE Chain(_, _)
Chain(op, xs) == IF Len(xs) = 1 THEN xs[1]
                 ELSE [t |-> op, l |-> Chain(op, SubSeq(xs, 1, Len(xs) - 1)), r |-> xs[Len(xs)]]

(* flatten a sequence of sequences *)
RECURSIVE Flat(_)
Flat(ss) == IF ss = <<>> THEN <<>> ELSE Head(ss) \o Flat(Tail(ss))
=============================================================================
