------------------------------- MODULE TauOpt -------------------------------
(***************************************************************************)
(* Engine layer: the optimiser (optimiser.rs, rule.rs:487 Rule::optimise)  *)
(* as tree-to-tree operators on the expression trees of TauEngine.         *)
(*                                                                         *)
(*   Coalesce  identifiers are inlined into the condition                  *)
(*   Shake0    and/or chains become groups, one-element groups are         *)
(*             unwrapped, double negation is removed                       *)
(*   Shake1    and-groups: nested blocks on one field are merged and moved  *)
(*             to the end; or-groups: searches on one (field, cast, case)  *)
(*             are merged into one Aho-Corasick search / RegexSet, the     *)
(*             operands are re-ordered by kind and sorted                  *)
(*   Rewrite   a leading / trailing ".*" is stripped from regexes          *)
(*   Matrix    an or of ands over shared fields becomes a table whose      *)
(*             cells address their field by a synthetic one-character key  *)
(*                                                                         *)
(* The maps the code iterates over are BTreeMaps (after the fix for C12),  *)
(* so every order here is determined: keys are compared as the code does   *)
(* (field text by bytes, then cast flag, then case flag).                  *)
(***************************************************************************)
EXTENDS Naturals, Sequences, FiniteSets, TauEngine

(* ----- orders ----- *)
RECURSIVE StrLess(_, _)
StrLess(a, b) == IF b = <<>> THEN FALSE ELSE IF a = <<>> THEN TRUE
                 ELSE IF a[1] # b[1] THEN a[1] < b[1] ELSE StrLess(Tail(a), Tail(b))
BoolLess(a, b) == ~a /\ b
(* (field, cast, ic) keys *)
KeyLess(x, y) == IF x[1] # y[1] THEN StrLess(x[1], y[1])
                 ELSE IF x[2] # y[2] THEN BoolLess(x[2], y[2]) ELSE BoolLess(x[3], y[3])

(* stable sort by a strict order Less: element i goes to rank = number of elements before it *)
SortBy(s, Less(_, _)) ==
  LET Before(j, i) == Less(s[j], s[i]) \/ (~Less(s[i], s[j]) /\ j < i)
      Rank(i) == Cardinality({j \in DOMAIN s : Before(j, i)}) + 1
  IN [p \in DOMAIN s |-> s[CHOOSE i \in DOMAIN s : Rank(i) = p]]

Utf8Len1(c) == IF c < 128 THEN 1 ELSE IF c < 2048 THEN 2 ELSE IF c < 65536 THEN 3 ELSE 4
RECURSIVE Utf8Len(_)
Utf8Len(s) == IF s = <<>> THEN 0 ELSE Utf8Len1(Head(s)) + Utf8Len(Tail(s))

(* regex source text of an atom sequence (the harness renders the same way) *)
IsAlnumCp(c) == (c >= 48 /\ c <= 57) \/ (c >= 65 /\ c <= 90) \/ (c >= 97 /\ c <= 122)
ClsCp(n) == CASE n = "d" -> 100 [] n = "D" -> 68 [] n = "s" -> 115 [] n = "S" -> 83 [] n = "w" -> 119 [] n = "W" -> 87
RepText(a) == IF "rep" \notin DOMAIN a THEN <<>>
              ELSE CASE a.rep = "+" -> <<43>> [] a.rep = "?" -> <<63>> [] a.rep = "*" -> <<42>> [] OTHER -> <<>>
AtomBody(a) ==
  CASE a.t = "c" -> IF IsAlnumCp(a.c) \/ a.c = 32 \/ a.c >= 128 THEN <<a.c>> ELSE <<92, a.c>>
    [] a.t = "dot" -> <<46>>
    [] a.t = "star" -> <<46, 42>>
    [] a.t = "lazy" -> <<46, 42, 63>>
    [] a.t = "bol" -> <<94>>
    [] a.t = "eol" -> <<36>>
    [] a.t = "cls" -> <<92, ClsCp(a.n)>>
    [] a.t = "set" -> <<91>> \o (IF a.neg THEN <<94>> ELSE <<>>) \o a.cs \o <<93>>
AtomText(a) == AtomBody(a) \o RepText(a)
RECURSIVE ReText(_)
ReText(r) == IF r = <<>> THEN <<>> ELSE AtomText(Head(r)) \o ReText(Tail(r))

(* distinct keys of a sequence of <<key, value>> pairs, sorted; values of one key in order *)
KeysOf(ps) == {ps[i][1] : i \in DOMAIN ps}
ValsOf(ps, k) == LET idx == SelectSeq([i \in DOMAIN ps |-> i], LAMBDA i : ps[i][1] = k) IN
                 [j \in DOMAIN idx |-> ps[idx[j]][2]]
SortedKeys(ps, Less(_, _)) == SortBy(SetSeq(KeysOf(ps)), Less)

-----------------------------------------------------------------------------
RECURSIVE Coalesce(_, _)
Coalesce(x, ids) ==
  CASE x.t = "group" -> XGroup(x.op, [i \in DOMAIN x.g |-> Coalesce(x.g[i], ids)])
    [] x.t = "bexp"  -> XBexp(Coalesce(x.l, ids), x.op, Coalesce(x.r, ids))
    [] x.t = "ident" -> LookupX(ids, x.n)
    [] x.t = "match" -> XMatch(x.m, x.c, Coalesce(x.e, ids))
    [] x.t = "neg"   -> XNeg(Coalesce(x.e, ids))
    [] x.t = "nested" -> XNested(x.f, Coalesce(x.e, ids))
    [] OTHER -> x

-----------------------------------------------------------------------------
RECURSIVE Shake0(_)
IsGrp(x, op) == x.t = "group" /\ x.op = op
IsBx(x, op) == x.t = "bexp" /\ x.op = op
Shake0(x) ==
  CASE x.t = "group" ->
         LET g == [i \in DOMAIN x.g |-> Shake0(x.g[i])] IN
         IF Len(g) = 1 THEN g[1] ELSE XGroup(x.op, g)
    [] x.t = "bexp" ->
         LET l == Shake0(x.l) r == Shake0(x.r) op == x.op IN
         IF op \notin {"and", "or"} THEN XBexp(l, op, r)
         ELSE IF IsGrp(l, op) /\ IsGrp(r, op) THEN Shake0(XGroup(op, l.g \o r.g))
         ELSE IF IsGrp(l, op) THEN Shake0(XGroup(op, Append(l.g, r)))
         ELSE IF IsGrp(r, op) THEN Shake0(XGroup(op, <<l>> \o r.g))
         ELSE IF IsBx(l, op) THEN Shake0(XGroup(op, <<l.l, l.r, r>>))
         ELSE IF IsBx(r, op) THEN Shake0(XGroup(op, <<l, r.l, r.r>>))
         ELSE XBexp(l, op, r)
    [] x.t = "match" -> XMatch(x.m, x.c, Shake0(x.e))
    [] x.t = "neg" -> LET y == Shake0(x.e) IN IF y.t = "neg" THEN Shake0(y.e) ELSE XNeg(y)
    [] x.t = "nested" -> XNested(x.f, Shake0(x.e))
    [] OTHER -> x

-----------------------------------------------------------------------------
PlainK == {"exact", "prefix", "suffix", "contains"}
RECURSIVE Shake1(_)

(* the needles an or-group operand contributes: <<key, [k, a]>> pairs *)
NeedlePairs(s) ==
  IF s.t = "search" /\ s.s.k = "aho"
  THEN [i \in DOMAIN s.s.ctx |-> <<(<<s.f, s.c, s.s.ic>>), s.s.ctx[i]>>]
  ELSE IF s.t = "search" /\ s.s.k \in PlainK THEN << <<(<<s.f, s.c, FALSE>>), [k |-> s.s.k, a |-> s.s.a]>> >>
  ELSE <<>>
PatternPairs(s) ==
  IF s.t = "search" /\ s.s.k = "regex" THEN << <<(<<s.f, s.c, s.s.ic>>), s.s.r>> >>
  ELSE IF s.t = "search" /\ s.s.k = "regexset"
       THEN [i \in DOMAIN s.s.rs |-> <<(<<s.f, s.c, s.s.ic>>), s.s.rs[i]>>]
  ELSE <<>>

RECURSIVE FlatSeq(_)
FlatSeq(ss) == IF ss = <<>> THEN <<>> ELSE Head(ss) \o FlatSeq(Tail(ss))

LenLess(a, b) == Utf8Len(a.s.a) < Utf8Len(b.s.a)
AhoLess(a, b) ==     \* (b.len(), case1).cmp(&(a.len(), case0)): descending by (members, case flag)
  IF Len(a.s.ctx) # Len(b.s.ctx) THEN Len(a.s.ctx) > Len(b.s.ctx) ELSE BoolLess(b.s.ic, a.s.ic)
RegexLess(a, b) == IF ReText(a.s.r) # ReText(b.s.r) THEN StrLess(ReText(a.s.r), ReText(b.s.r)) ELSE BoolLess(a.s.ic, b.s.ic)
RECURSIVE SeqStrLess(_, _)
SeqStrLess(p, q) == IF q = <<>> THEN FALSE ELSE IF p = <<>> THEN TRUE
                    ELSE IF ReText(p[1]) # ReText(q[1]) THEN StrLess(ReText(p[1]), ReText(q[1]))
                    ELSE SeqStrLess(Tail(p), Tail(q))
RegexSetLess(a, b) == IF a.s.rs # b.s.rs THEN SeqStrLess(a.s.rs, b.s.rs) ELSE BoolLess(a.s.ic, b.s.ic)

Shake1(x) ==
  CASE x.t = "group" /\ x.op = "and" ->
         LET sh == [i \in DOMAIN x.g |-> Shake1(x.g[i])]
             plain == SelectSeq(sh, LAMBDA s : s.t # "nested")
             nest == SelectSeq(sh, LAMBDA s : s.t = "nested")
             pairs == [i \in DOMAIN nest |-> <<nest[i].f, nest[i].e>>]
             fields == SortedKeys(pairs, StrLess)
             merged == [j \in DOMAIN fields |->
                          LET inners == ValsOf(pairs, fields[j]) IN
                          XNested(fields[j],
                                  IF Len(inners) = 1 THEN Shake1(inners[1])
                                  ELSE Shake1(XMatch("all", 0, XGroup("or", inners))))]
             scratch == plain \o merged
         IN IF Len(scratch) # Len(x.g) THEN Shake1(XGroup("and", scratch))
            ELSE IF Len(scratch) = 1 THEN scratch[1] ELSE XGroup("and", scratch)
    [] x.t = "group" /\ x.op = "or" ->
         LET sh == [i \in DOMAIN x.g |-> Shake1(x.g[i])]
             anys == SelectSeq(sh, LAMBDA s : s.t = "search" /\ s.s.k = "any")
             restP == SelectSeq(sh, LAMBDA s : s.t \notin {"nested", "search"})
             npairs == FlatSeq([i \in DOMAIN sh |-> NeedlePairs(sh[i])])
             ppairs == FlatSeq([i \in DOMAIN sh |-> PatternPairs(sh[i])])
             nest == SelectSeq(sh, LAMBDA s : s.t = "nested")
             xpairs == [i \in DOMAIN nest |-> <<nest[i].f, nest[i].e>>]
             nkeys == SortedKeys(npairs, KeyLess)
             fromNeedles == [j \in DOMAIN nkeys |->
                               LET k == nkeys[j] cs == ValsOf(npairs, k) IN
                               IF ~k[3] /\ Len(cs) = 1 THEN XSearch(SPlain(cs[1].k, cs[1].a), k[1], k[2])
                               ELSE XSearch(SAho(cs, k[3]), k[1], k[2])]
             single(kk) == SelectSeq(fromNeedles, LAMBDA s : s.s.k = kk)
             aho == SelectSeq(fromNeedles, LAMBDA s : s.s.k = "aho")
             nfields == SortedKeys(xpairs, StrLess)
             nested2 == [j \in DOMAIN nfields |->
                           LET inners == ValsOf(xpairs, nfields[j]) IN
                           XNested(nfields[j], IF Len(inners) = 1 THEN Shake1(inners[1])
                                               ELSE Shake1(XGroup("or", inners)))]
             pkeys == SortedKeys(ppairs, KeyLess)
             fromPats == [j \in DOMAIN pkeys |->
                            LET k == pkeys[j] ps == ValsOf(ppairs, k) IN
                            IF Len(ps) = 1 THEN XSearch(SRegex(ps[1], k[3]), k[1], k[2])
                            ELSE XSearch(SRegexSet(ps, k[3]), k[1], k[2])]
             regex == SelectSeq(fromPats, LAMBDA s : s.s.k = "regex")
             rsets == SelectSeq(fromPats, LAMBDA s : s.s.k = "regexset")
             scratch == anys \o SortBy(single("exact"), LenLess) \o SortBy(single("prefix"), LenLess)
                        \o SortBy(single("suffix"), LenLess) \o SortBy(single("contains"), LenLess)
                        \o SortBy(aho, AhoLess) \o SortBy(regex, RegexLess) \o SortBy(rsets, RegexSetLess)
                        \o restP \o nested2
         IN IF Len(scratch) # Len(x.g) THEN Shake1(XGroup("or", scratch))
            ELSE IF Len(scratch) = 1 THEN scratch[1] ELSE XGroup("or", scratch)
    [] x.t = "bexp" -> XBexp(Shake1(x.l), x.op, Shake1(x.r))
    [] x.t = "match" -> IF x.e.t = "group"
                        THEN XMatch(x.m, x.c, XGroup(x.e.op, [i \in DOMAIN x.e.g |-> Shake1(x.e.g[i])]))
                        ELSE XMatch(x.m, x.c, Shake1(x.e))
    [] x.t = "neg" -> XNeg(Shake1(x.e))
    [] x.t = "nested" -> XNested(x.f, Shake1(x.e))
    [] OTHER -> x

Shake(x) == Shake1(Shake0(x))

-----------------------------------------------------------------------------
(* rewrite_search on the atom level: the text starts with ".*" iff the first atom is `star` or   *)
(* `lazy`; stripping it from `lazy` leaves "?..", not a regex, and the original is kept (the    *)
(* whole rebuild fails, so a trailing ".*" is kept as well)                                    *)
ReRewriteE(r) == IF r # <<>> /\ r[1].t = "lazy" THEN r ELSE ReRewrite(r)
RECURSIVE Rewrite(_)
Rewrite(x) ==
  CASE x.t = "group" -> XGroup(x.op, [i \in DOMAIN x.g |-> Rewrite(x.g[i])])
    [] x.t = "bexp" -> XBexp(Rewrite(x.l), x.op, Rewrite(x.r))
    [] x.t = "match" -> XMatch(x.m, x.c, Rewrite(x.e))
    [] x.t = "neg" -> XNeg(Rewrite(x.e))
    [] x.t = "nested" -> XNested(x.f, Rewrite(x.e))
    [] x.t = "search" ->
         IF x.s.k = "regex" THEN XSearch(SRegex(ReRewriteE(x.s.r), x.s.ic), x.f, x.c)
         ELSE IF x.s.k = "regexset"
              THEN IF \E i \in DOMAIN x.s.rs : x.s.rs[i] # <<>> /\ x.s.rs[i][1].t = "lazy" THEN x
                   ELSE XSearch(SRegexSet([i \in DOMAIN x.s.rs |-> ReRewrite(x.s.rs[i])], x.s.ic), x.f, x.c)
         ELSE x
    [] OTHER -> x

-----------------------------------------------------------------------------
IsConst(y) == y.t \in {"xbool", "xnum", "xnull"}
IsCell(e) == (e.t = "bexp" /\ e.l.t \in {"xcast", "field"} /\ IsConst(e.r)) \/ e.t \in {"nested", "search"}
FieldOfX(e) == IF e.t = "bexp" THEN e.l.f ELSE e.f
(* counting pass: fields of an operand of the or-group *)
CountedFields(e) ==
  IF e.t = "group" /\ e.op = "and"
  THEN IF \A i \in DOMAIN e.g : IsCell(e.g[i]) THEN [i \in DOMAIN e.g |-> FieldOfX(e.g[i])] ELSE <<>>
  ELSE IF e.t = "bexp" /\ e.l.t \in {"xcast", "field"} THEN <<e.l.f>>
  ELSE IF e.t \in {"nested", "search"} THEN <<e.f>>
  ELSE <<>>
CountOf(fs, f) == Cardinality({i \in DOMAIN fs : fs[i] = f})

KeyCp(i) == <<i - 1>>                       \* the synthetic key of column i (1-based): char::from_u32(i - 1)
Recell(e, i) ==
  CASE e.t = "bexp" -> XBexp(IF e.l.t = "xcast" THEN XCast(KeyCp(i), e.l.k) ELSE XField(KeyCp(i)), e.op, e.r)
    [] e.t = "nested" -> XNested(KeyCp(i), e.e)
    [] e.t = "search" -> XSearch(e.s, KeyCp(i), e.c)

RECURSIVE Matrix(_)
Matrix(x) ==
  CASE x.t = "group" /\ x.op = "and" -> XGroup("and", [i \in DOMAIN x.g |-> Matrix(x.g[i])])
    [] x.t = "group" /\ x.op = "or" ->
         LET scratch == [i \in DOMAIN x.g |-> Matrix(x.g[i])]
             counted == FlatSeq([i \in DOMAIN scratch |-> CountedFields(scratch[i])])
             fset == {counted[i] : i \in DOMAIN counted}
             doit == \E f \in fset : CountOf(counted, f) > 1 /\ CountOf(counted, f) < 256
             cols == SortBy(SortBy(SetSeq(fset), StrLess),
                            LAMBDA a, b : CountOf(counted, a) < CountOf(counted, b))
             ColIdx(f) == CHOOSE i \in DOMAIN cols : cols[i] = f
             (* an and-group becomes a row iff every operand is a cell, no field repeats and every *)
             (* field has a column                                                                  *)
             RowOk(e) == e.t = "group" /\ e.op = "and" /\ (\A i \in DOMAIN e.g : IsCell(e.g[i]))
                         /\ (\A i, j \in DOMAIN e.g : i # j => FieldOfX(e.g[i]) # FieldOfX(e.g[j]))
                         /\ (\A i \in DOMAIN e.g : FieldOfX(e.g[i]) \in fset)
             RowOf(e) ==
               IF e.t = "group"
               THEN [c \in DOMAIN cols |->
                       LET hit == {i \in DOMAIN e.g : FieldOfX(e.g[i]) = cols[c]} IN
                       IF hit = {} THEN XNONE ELSE Recell(e.g[CHOOSE i \in hit : TRUE], c)]
               ELSE [c \in DOMAIN cols |-> IF cols[c] = FieldOfX(e) THEN Recell(e, c) ELSE XNONE]
             IsRow(e) == RowOk(e) \/ (e.t = "bexp" /\ IsCell(e)) \/ e.t \in {"nested", "search"}
             rows == LET rs == SelectSeq(scratch, IsRow) IN [i \in DOMAIN rs |-> RowOf(rs[i])]
             rest == SelectSeq(scratch, LAMBDA e : ~IsRow(e))
             exprs == (IF rows = <<>> THEN <<>> ELSE <<XMatrix(cols, rows)>>) \o rest
         IN IF ~doit THEN XGroup("or", scratch)
            ELSE IF Len(exprs) = 1 THEN exprs[1] ELSE XGroup("or", exprs)
    [] x.t = "bexp" -> XBexp(Matrix(x.l), x.op, Matrix(x.r))
    [] x.t = "match" -> IF x.e.t = "group"
                        THEN XMatch(x.m, x.c, XGroup(x.e.op, [i \in DOMAIN x.e.g |-> Shake1(x.e.g[i])]))
                        ELSE XMatch(x.m, x.c, Shake1(x.e))
    [] x.t = "neg" -> XNeg(Matrix(x.e))
    [] x.t = "nested" -> XNested(x.f, Matrix(x.e))
    [] OTHER -> x

-----------------------------------------------------------------------------
(* Rule::optimise: four independent ifs; identifiers are cleared after coalesce *)
MapIds(ids, F(_)) == [i \in DOMAIN ids |-> <<ids[i][1], F(ids[i][2])>>]
Optimise(p, sw) ==
  LET p1 == IF sw[1] THEN [x |-> Coalesce(p.x, p.ids), ids |-> <<>>] ELSE p
      p2 == IF sw[2] THEN [x |-> Shake(p1.x), ids |-> MapIds(p1.ids, Shake)] ELSE p1
      p3 == IF sw[3] THEN [x |-> Rewrite(p2.x), ids |-> MapIds(p2.ids, Rewrite)] ELSE p2
      p4 == IF sw[4] THEN [x |-> Matrix(p3.x), ids |-> MapIds(p3.ids, Matrix)] ELSE p3
  IN p4

EngEvalOpt(src, sw, doc) ==
  LET p == IF sw = <<>> THEN ParseSrc(src) ELSE Optimise(ParseSrc(src), sw) IN Solve(p.x, p.ids, doc)
=============================================================================
