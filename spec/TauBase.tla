------------------------------- MODULE TauBase ------------------------------
(* Small helpers shared by every module. *)
EXTENDS Naturals, Sequences, FiniteSets
MinOf(S) == CHOOSE m \in S : \A k \in S : m <= k
MaxOf(S) == CHOOSE m \in S : \A k \in S : m >= k
=============================================================================
