------------------------------- MODULE TauBase ------------------------------
(* Small helpers shared by every module. *)
EXTENDS Naturals, Sequences, FiniteSets
MinOf(S) == CHOOSE m \in S : \A k \in S : m <= k
RECURSIVE SetSeq(_)
SetSeq(S) == IF S = {} THEN <<>> ELSE LET x == CHOOSE y \in S : TRUE IN <<x>> \o SetSeq(S \ {x})
MaxOf(S) == CHOOSE m \in S : \A k \in S : m >= k
=============================================================================
