------------------------------- MODULE MC_Cond -------------------------------
(***************************************************************************)
(* C05 (and the condition side of C03): exhaustive model of the condition  *)
(* grammar.  Universe: every token string of length 1..MaxLen over the     *)
(* alphabet Alphabet (identifiers, and, or, not, parentheses, and - in the *)
(* wide configuration - all()/of()/cast comparison snippets and numbers).  *)
(*                                                                         *)
(* Design-level invariants:                                                *)
(*   PrattIsRef  the Pratt parser (binding-power table, parenthesis        *)
(*               collection) builds exactly the tree of the reference      *)
(*               grammar, or both reject - except on NAMED deviations      *)
(*   RoundTrip   the text rendering of a token string tokenises back to it *)
(*               (keyword look-ahead, spacing variants)                    *)
(* Emitted: REPLAY cases - the rendered condition text, one atom           *)
(* identifier per name, and every {T,F,M} assignment as a document.        *)
(***************************************************************************)
EXTENDS TauCond, TauGen, TLC, Json

CONSTANTS MaxLen,       \* longest token string
          EmitRejLen,   \* rejected strings are emitted as cases up to this length
          Wide,         \* TRUE: alphabet includes all()/of()/cast/number snippets
          Dev

VARIABLES ts,     \* the token string built so far
          cnt     \* number of alphabet elements appended
vars == <<ts, cnt>>
sp == 1

NameA == <<65>>   NameB == <<66>>   NameC == <<67>>
(* a "token" of the alphabet is a short token sequence (snippets keep the universe small) *)
Base == { <<TId(NameA)>>, <<TId(NameB)>>, <<TId(NameC)>>, <<TOp("and")>>, <<TOp("or")>>, <<TNot>>, <<TLp>>, <<TRp>> }
FldF == <<102>>  FldG == <<103>>
NameZ == <<90>>                       \* "Z": an identifier the rule does NOT define
Snippets == { <<TId(NameZ)>>, <<TMatch("all"), TLp, TId(NameZ), TRp>>,
              <<TMatch("of"), TLp, TId(NameZ), TComma, TInt(<<1>>), TRp>>,
              <<TMatch("all"), TLp, TId(NameA), TRp>>,
              <<TMatch("of"), TLp, TId(NameB), TComma, TInt(<<1>>), TRp>>,
              <<TMod("int"), TLp, TId(FldF), TRp>>,
              <<TMod("flt"), TLp, TId(FldG), TRp>>,
              <<TMod("not"), TLp, TId(NameA), TRp>>,
              <<TInt(<<1>>)>>, <<TFlt(<<1>>, <<5>>)>>,
              <<TOp("eq")>>, <<TOp("lt")>> }
Alphabet == IF Wide THEN Base \cup Snippets ELSE Base

(* the universe is explored as a tree: every reachable state is one token string, so the        *)
(* invariants are evaluated on every string and TLC's workers share the enumeration            *)
Init == ts = <<>> /\ cnt = 0
Next == cnt < MaxLen /\ \E a \in Alphabet : ts' = ts \o a /\ cnt' = cnt + 1
Spec == Init /\ [][Next]_vars

-----------------------------------------------------------------------------
(* text rendering of tokens: every token is followed by `gap` spaces, so a keyword always has  *)
(* the delimiter its look-ahead needs                                                          *)
TokText(tk) ==
  CASE tk.k = "id" -> tk.s
    [] tk.k = "int" -> DigText(tk.d)
    [] tk.k = "flt" -> DigText(tk.d) \o <<46>> \o DigText(tk.fr)
    [] tk.k = "op" -> (CASE tk.o = "and" -> <<97,110,100>> [] tk.o = "or" -> <<111,114>>
                         [] tk.o = "eq" -> <<61,61>> [] tk.o = "gt" -> <<62>> [] tk.o = "ge" -> <<62,61>>
                         [] tk.o = "lt" -> <<60>> [] tk.o = "le" -> <<60,61>>)
    [] tk.k = "not" -> <<110,111,116>>
    [] tk.k = "mod" -> (CASE tk.m = "int" -> <<105,110,116>> [] tk.m = "flt" -> <<102,108,116>>
                          [] tk.m = "str" -> <<115,116,114>> [] tk.m = "not" -> <<110,111,116>>)
    [] tk.k = "match" -> (IF tk.m = "all" THEN <<97,108,108>> ELSE <<111,102>>)
    [] tk.k = "lp" -> <<40>>
    [] tk.k = "rp" -> <<41>>
    [] tk.k = "comma" -> <<44>>

Spaces(n) == [i \in 1..n |-> 32]
(* modifiers and all/of must be directly followed by "(" - no gap after them *)
GapAfter(tk, gap) == IF tk.k \in {"mod", "match"} THEN 0 ELSE gap
RECURSIVE Render(_, _)
Render(toks, gap) == IF toks = <<>> THEN <<>>
                     ELSE TokText(Head(toks)) \o Spaces(GapAfter(Head(toks), gap)) \o Render(Tail(toks), gap)

Names == {NameA, NameB, NameC}

Ref == LET x == RefParse(ts) IN IF IsErr(x) \/ ~(RefIds(x) \subseteq Names) THEN ERR ELSE x
Eng == IF ScanOk(ts, Names) THEN Pratt(ts, Dev) ELSE ERR

(* named deviations of the Pratt parser as the code is today *)
KnownDeviation ==
  \/ "paren_unclosed_ok" \in Dev /\ IsErr(Ref) /\ ~IsErr(Eng)
     /\ Cardinality({i \in DOMAIN ts : ts[i].k = "lp"}) > Cardinality({i \in DOMAIN ts : ts[i].k = "rp"})
  \/ "andor_unchecked" \in Dev /\ IsErr(Ref) /\ ~IsErr(Eng)

PrattIsRef == ts = <<>> \/ Eng = Ref \/ KnownDeviation
RoundTrip  == /\ Tokenise(Render(ts, 1)) = [ok |-> TRUE, toks |-> ts]
              /\ Tokenise(Render(ts, 3)) = [ok |-> TRUE, toks |-> ts]

-----------------------------------------------------------------------------
(* cases: identifier X matches when field fX = "x"; every assignment of T/F/M to A, B, C; the  *)
(* cast fields f and g take a few numeric values                                               *)
X == <<120>>  Y == <<121>>
AtomFor(n) == MapB(<<Ent(<<102>> \o n, ExactP(X))>>)
Ids == << <<NameA, AtomFor(NameA)>>, <<NameB, AtomFor(NameB)>>, <<NameC, AtomFor(NameC)>> >>
UsedNames == {n \in Names : \E i \in DOMAIN ts : ts[i].k = "id" /\ ts[i].s = n}
Kv(n, v) == IF v = "M" THEN <<>> ELSE << <<(<<102>> \o n), SV(IF v = "T" THEN X ELSE Y)>> >>
NumDocs == IF \E i \in DOMAIN ts : ts[i].k = "mod"
           THEN { << <<FldF, IV(FALSE, <<1>>)>>, <<FldG, FV(FALSE, <<1>>, <<5>>)>> >>,
                  << <<FldF, IV(FALSE, <<0>>)>> >>, <<>> }
           ELSE { <<>> }
Assign == [Names -> Tri]
Relevant(a) == \A n \in Names \ UsedNames : a[n] = "M"
DocSet == { OV(Kv(NameA, a[NameA]) \o Kv(NameB, a[NameB]) \o Kv(NameC, a[NameC]) \o nd) :
              a \in {b \in Assign : Relevant(b)}, nd \in NumDocs }

Emit == ts # <<>> /\ (~IsErr(Ref) \/ ~IsErr(Eng) \/ cnt <= EmitRejLen) =>
  PrintT("REPLAY " \o ToJson([topic |-> "C05", form |-> IF IsErr(Ref) THEN "rejected" ELSE "accepted",
                               oracle |-> TRUE, wt |-> FALSE, bodies_ok |-> TRUE,
                               src |-> [cond |-> [t |-> "text", s |-> Render(ts, sp)], ids |-> Ids],
                               docs |-> SetSeq(DocSet),
                               refok |-> ~IsErr(Ref), engok |-> ~IsErr(Eng),
                               plan |-> [tri |-> FALSE, sws |-> << <<>> >>]]))
=============================================================================
