SPECIFICATION Spec
CONSTANTS
  MaxK = 3
  Dev = {"quant_partial_batch"}
INVARIANTS
  EngInAdm
  LangIsAdm
  Lifted
  Emit
CHECK_DEADLOCK FALSE
