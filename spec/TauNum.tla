------------------------------- MODULE TauNum -------------------------------
(***************************************************************************)
(* Exact numbers for the rule language.  TLC integers are 32-bit, so all   *)
(* 64-bit and floating point reasoning is done on decimal digit sequences. *)
(*                                                                         *)
(*   integer : [k |-> "i", neg |-> BOOLEAN, d |-> Seq(0..9)]               *)
(*   float   : [k |-> "f", neg |-> BOOLEAN, d |-> Seq(0..9),               *)
(*              fr |-> Seq(0..9), sp |-> "" | "nan" | "inf"]               *)
(* Floats in checked universes are values whose decimal expansion is exact *)
(* and short (dyadic fractions, powers of two), so Rust's f64 comparison   *)
(* and Display agree with the digit arithmetic here.                       *)
(***************************************************************************)
EXTENDS Naturals, Sequences, TauStr

RECURSIVE StripLead(_)
StripLead(d) == IF d # <<>> /\ Head(d) = 0 THEN StripLead(Tail(d)) ELSE d
RECURSIVE StripTrail(_)
StripTrail(d) == IF d # <<>> /\ d[Len(d)] = 0 THEN StripTrail(SubSeq(d, 1, Len(d) - 1)) ELSE d

IntPart(n)  == StripLead(n.d)
FracPart(n) == IF n.k = "f" THEN StripTrail(n.fr) ELSE <<>>
IsNaN(n) == n.k = "f" /\ n.sp = "nan"
IsInf(n) == n.k = "f" /\ n.sp = "inf"
IsZero(n) == ~IsNaN(n) /\ ~IsInf(n) /\ IntPart(n) = <<>> /\ FracPart(n) = <<>>

(* lexicographic comparison of equal-length digit sequences: -1, 0, 1 (as 0,1,2 to stay in Nat) *)
RECURSIVE LexCmp(_, _)
LexCmp(a, b) == IF a = <<>> /\ b = <<>> THEN 1
                ELSE IF a = <<>> THEN (IF StripLead(b) = <<>> THEN 1 ELSE 0)   \* pad a with zeros
                ELSE IF b = <<>> THEN (IF StripLead(a) = <<>> THEN 1 ELSE 2)
                ELSE IF Head(a) < Head(b) THEN 0
                ELSE IF Head(a) > Head(b) THEN 2
                ELSE LexCmp(Tail(a), Tail(b))

(* magnitude comparison (finite values): 0 = less, 1 = equal, 2 = greater *)
MagCmp(x, y) ==
  LET a == IntPart(x) b == IntPart(y) IN
  IF Len(a) < Len(b) THEN 0
  ELSE IF Len(a) > Len(b) THEN 2
  ELSE LET c == LexCmp(a, b) IN IF c # 1 THEN c ELSE LexCmp(FracPart(x), FracPart(y))

(* signed comparison of two non-NaN numbers: 0 less, 1 equal, 2 greater *)
NumCmp(x, y) ==
  IF IsInf(x) /\ IsInf(y) THEN (IF x.neg = y.neg THEN 1 ELSE IF x.neg THEN 0 ELSE 2)
  ELSE IF IsInf(x) THEN (IF x.neg THEN 0 ELSE 2)
  ELSE IF IsInf(y) THEN (IF y.neg THEN 2 ELSE 0)
  ELSE IF IsZero(x) /\ IsZero(y) THEN 1
  ELSE IF IsZero(x) THEN (IF y.neg THEN 2 ELSE 0)
  ELSE IF IsZero(y) THEN (IF x.neg THEN 0 ELSE 2)
  ELSE IF x.neg /\ ~y.neg THEN 0
  ELSE IF ~x.neg /\ y.neg THEN 2
  ELSE LET m == MagCmp(x, y) IN IF x.neg THEN 2 - m ELSE m

Ops == {"eq", "gt", "ge", "lt", "le"}

(* the mathematical relation; false whenever a NaN is involved *)
NumRel(op, x, y) ==
  IF IsNaN(x) \/ IsNaN(y) THEN FALSE
  ELSE LET c == NumCmp(x, y) IN
       CASE op = "eq" -> c = 1
         [] op = "gt" -> c = 2
         [] op = "ge" -> c >= 1
         [] op = "lt" -> c = 0
         [] op = "le" -> c <= 1

-----------------------------------------------------------------------------
(* 64-bit range *)
D(i) == i
MaxI64 == <<9,2,2,3,3,7,2,0,3,6,8,5,4,7,7,5,8,0,7>>
MinI64Mag == <<9,2,2,3,3,7,2,0,3,6,8,5,4,7,7,5,8,0,8>>
MaxU64 == <<1,8,4,4,6,7,4,4,0,7,3,7,0,9,5,5,1,6,1,5>>

MkInt(neg, d) == [k |-> "i", neg |-> neg, d |-> d]
MkFlt(neg, d, fr) == [k |-> "f", neg |-> neg, d |-> d, fr |-> fr, sp |-> ""]

DigLe(a, b) == LET x == StripLead(a) y == StripLead(b) IN
               Len(x) < Len(y) \/ (Len(x) = Len(y) /\ LexCmp(x, y) <= 1)

FitsI64(n) == IF n.neg /\ StripLead(n.d) # <<>> THEN DigLe(n.d, MinI64Mag) ELSE DigLe(n.d, MaxI64)
FitsU64(n) == (~n.neg \/ StripLead(n.d) = <<>>) /\ DigLe(n.d, MaxU64)

(* d + 1 on digit sequences *)
RECURSIVE Inc(_)
Inc(d) == IF d = <<>> THEN <<1>>
          ELSE IF d[Len(d)] < 9 THEN [d EXCEPT ![Len(d)] = @ + 1]
          ELSE Append(Inc(SubSeq(d, 1, Len(d) - 1)), 0)

-----------------------------------------------------------------------------
(* decimal text *)
DigitCp(i) == 48 + i
DigText(d) == [i \in DOMAIN d |-> DigitCp(d[i])]
IntText(n) == LET m == IntPart(n) IN
              (IF n.neg /\ m # <<>> THEN <<45>> ELSE <<>>) \o (IF m = <<>> THEN <<48>> ELSE DigText(m))
(* Rust's Display for f64 on exactly representable short decimals:         *)
(* "-0" for negative zero, no ".0" on integral values, "inf", "NaN"         *)
FltText(n) ==
  IF IsNaN(n) THEN <<78, 97, 78>>
  ELSE IF IsInf(n) THEN (IF n.neg THEN <<45>> ELSE <<>>) \o <<105, 110, 102>>
  ELSE LET m == IntPart(n) f == FracPart(n) IN
       (IF n.neg THEN <<45>> ELSE <<>>) \o (IF m = <<>> THEN <<48>> ELSE DigText(m))
       \o (IF f = <<>> THEN <<>> ELSE <<46>> \o DigText(f))
NumText(n) == IF n.k = "i" THEN IntText(n) ELSE FltText(n)

IsDigitCp(c) == c >= 48 /\ c <= 57
AllDigits(s) == s # <<>> /\ \A i \in DOMAIN s : IsDigitCp(s[i])
ToDigits(s) == [i \in DOMAIN s |-> s[i] - 48]

NoNum == [k |-> "none"]
(* text -> integer, the pinned decimal syntax  -?[0-9]+  (C09) ; "none" otherwise *)
ParseIntText(s) ==
  LET neg == s # <<>> /\ s[1] = 45
      body == IF neg THEN Tail(s) ELSE s
  IN IF AllDigits(body) THEN MkInt(neg, ToDigits(body)) ELSE NoNum

DotPos(s) == {i \in DOMAIN s : s[i] = 46}
(* text -> float, the pinned syntax  -?[0-9]+(\.[0-9]+)? *)
ParseFltText(s) ==
  LET neg == s # <<>> /\ s[1] = 45
      body == IF neg THEN Tail(s) ELSE s
      dots == DotPos(body)
  IN IF dots = {} THEN (IF AllDigits(body) THEN MkFlt(neg, ToDigits(body), <<>>) ELSE NoNum)
     ELSE LET p == CHOOSE i \in dots : TRUE
              a == SubSeq(body, 1, p - 1)
              b == SubSeq(body, p + 1, Len(body))
          IN IF Cardinality(dots) = 1 /\ AllDigits(a) /\ AllDigits(b)
             THEN MkFlt(neg, ToDigits(a), ToDigits(b)) ELSE NoNum

(* round half away from zero: float -> integer digits *)
RoundHalfAway(n) ==
  LET f == FracPart(n) up == f # <<>> /\ f[1] >= 5
      m == IF up THEN Inc(IntPart(n)) ELSE IntPart(n)
  IN MkInt(n.neg /\ m # <<>>, m)

IntToFlt(n) == MkFlt(n.neg, n.d, <<>>)
=============================================================================
