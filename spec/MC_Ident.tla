------------------------------- MODULE MC_Ident ------------------------------
(***************************************************************************)
(* C04 / C07 / C15 (textual layer of patterns): every string of length     *)
(* 0..MaxLen over an alphabet of all characters that have a role in        *)
(* pattern syntax (i ? > < = * ' " letter digit . -), in both builds.      *)
(*   NoPanic     every slice the cascade takes is in range - except the    *)
(*               NAMED deviation (lone quote)                              *)
(*   WriteRead   what the documented forms write is what the cascade reads *)
(* Emitted: one case per string; the harness calls into_identifier on it   *)
(* and the trace specification compares outcome, kind, case flag, argument *)
(***************************************************************************)
EXTENDS TauIdent, TLC, Json

CONSTANTS MaxLen, Dev, IcBuild

VARIABLES s
vars == <<s>>

Alphabet == {105, 63, 62, 60, 61, 42, 39, 34, 97, 65, 49, 46, 45}

Init == s = <<>>
Next == Len(s) < MaxLen /\ \E c \in Alphabet : s' = Append(s, c)
Spec == Init /\ [][Next]_vars

R0 == IntoId(s, IcBuild, Dev)
KnownDeviation == "lone_quote_slice" \in Dev /\ s \in {<<39>>, <<34>>, <<105, 39>>, <<105, 34>>}
NoPanic == R0.st # "panic" \/ KnownDeviation

Kinds == {"any", "contains", "suffix", "prefix", "exact"}
WriteRead == \A k \in Kinds, ic \in BOOLEAN :
               LET p == [k |-> k, ic |-> ic, a |-> s] IN
               Renderable(p, IcBuild) => ReadsBack(p, IcBuild)

Emit == PrintT("REPLAY " \o ToJson([topic |-> "ident", run |-> "ident", form |-> R0.st,
                                     text |-> s, icb |-> IcBuild,
                                     exp |-> [st |-> R0.st, k |-> R0.k, ic |-> R0.ic, a |-> R0.a]]))
=============================================================================
