------------------------------- MODULE TauEngine ----------------------------
(***************************************************************************)
(* Engine layer: what the code DOES.                                       *)
(*                                                                         *)
(*   Expression trees of parser.rs (tagged records, X* constructors)       *)
(*   ParseSrc      parse_identifier / parse_mapping: how a rule source      *)
(*                 becomes expression trees, including the batching of a   *)
(*                 list's members into Aho-Corasick searches / RegexSets   *)
(*                 with their parallel MatchType context, and the wrapper  *)
(*                 rules (unwrap when one element, Match around groups)    *)
(*   Solve         solver.rs: solve_expression, match_all, match_of,        *)
(*                 search, slow_aho, the comparison table by value          *)
(*                 representation, Nested over objects and arrays, Matrix   *)
(*                 with its per-evaluation cache and synthetic keys         *)
(*                                                                         *)
(* The tree is the code's, the leaves are abstract: a search holds its     *)
(* pattern (TauStr), an automaton is specified by its hit set.  Anything   *)
(* the code would hit in an unreachable!()/expect() arm evaluates to the   *)
(* distinguished result "P" (panic).                                       *)
(***************************************************************************)
EXTENDS Naturals, Sequences, FiniteSets, TauLang

(* ----- expression trees ----- *)
XGroup(op, g) == [t |-> "group", op |-> op, g |-> g]
XBexp(l, op, r) == [t |-> "bexp", l |-> l, op |-> op, r |-> r]
XBool(b) == [t |-> "xbool", b |-> b]
XCast(f, k) == [t |-> "xcast", f |-> f, k |-> k]
XField(f) == [t |-> "field", f |-> f]
XNum(n) == [t |-> "xnum", n |-> n]                     \* Integer(i64) / Float(f64)
XIdent(n) == [t |-> "ident", n |-> n]
XMatch(m, c, x) == [t |-> "match", m |-> m, c |-> c, e |-> x]
XMatrix(cols, rows) == [t |-> "matrix", cols |-> cols, rows |-> rows]
XNeg(x) == [t |-> "neg", e |-> x]
XNested(f, x) == [t |-> "nested", f |-> f, e |-> x]
XNull == [t |-> "xnull"]
XSearch(s, f, c) == [t |-> "search", s |-> s, f |-> f, c |-> c]
XNONE == [t |-> "xnone"]                                \* an empty matrix cell

(* searches *)
SAny == [k |-> "any"]
SPlain(k, a) == [k |-> k, a |-> a]                      \* exact prefix suffix contains (case-sensitive std functions)
SAho(ctx, ic) == [k |-> "aho", ctx |-> ctx, ic |-> ic]  \* ctx: Seq([k, a]) needles with their MatchType
SRegex(r, ic) == [k |-> "regex", r |-> r, ic |-> ic]
SRegexSet(rs, ic) == [k |-> "regexset", rs |-> rs, ic |-> ic]

-----------------------------------------------------------------------------
(* parse_mapping (parser.rs:786-1608) on a structured source.  A source is well typed by         *)
(* construction, so the error returns of the parser are not modelled.                           *)

PlainKinds == {"exact", "prefix", "suffix", "contains"}
NeedleOf(p) == IF p.ic THEN Low(p.a) ELSE p.a

(* one string pattern on its own: parser.rs:1008-1090 *)
SingleSearch(p, f, cast) ==
  CASE p.k = "any" -> XSearch(SAny, f, cast)
    [] p.k = "regex" -> XSearch(SRegex(p.a, p.ic), f, cast)
    [] p.k = "exact" /\ p.a = <<>> -> XSearch(SPlain("exact", <<>>), f, cast)
    [] OTHER -> IF p.ic THEN XSearch(SAho(<<[k |-> p.k, a |-> NeedleOf(p)]>>, TRUE), f, cast)
                ELSE XSearch(SPlain(p.k, p.a), f, cast)

KeyExpr(e) == CASE e.m \in {"int", "flt", "str"} -> XCast(e.f, e.m)
                [] e.m \in {"all", "of"} -> XMatch(e.m, e.c, XField(e.f))
                [] OTHER -> XField(e.f)
Unmatched(e) == IF e.m \in {"all", "of"} THEN XField(e.f) ELSE KeyExpr(e)

CmpOpOf(v) == IF v.t = "num" THEN "eq" ELSE v.op
BoolText(b) == IF b THEN TrueText ELSE FalseText

RECURSIVE ParseMapping(_), ParseEntry(_), ParseValue(_, _, _), ParseList(_)

(* a scalar / nested value with left-hand side `lhs` *)
ParseValue(v, e, lhs) ==
  LET cast == e.m = "str" IN
  CASE v.t = "bool" -> IF e.m = "int" THEN XBexp(lhs, "eq", XNum(MkInt(FALSE, IF v.b THEN <<1>> ELSE <<0>>)))
                       ELSE IF e.m = "str" THEN XSearch(SPlain("exact", BoolText(v.b)), e.f, TRUE)
                       ELSE XBexp(lhs, "eq", XBool(v.b))
    [] v.t = "num"  -> IF e.m = "str" THEN XSearch(SPlain("exact", NumText(v.n)), e.f, TRUE)
                       ELSE XBexp(lhs, "eq", XNum(v.n))
    [] v.t = "cmp"  -> XBexp(lhs, v.op, XNum(v.n))
    [] v.t = "null" -> XBexp(lhs, "eq", XNull)
    [] v.t = "pat"  -> SingleSearch(v, e.f, cast)
    [] v.t = "map"  -> XNested(e.f, ParseMapping(v.es))

(* indices of the members of vs in a given batch class, in written order *)
IdxWhere(vs, P(_)) == SelectSeq([i \in DOMAIN vs |-> i], LAMBDA i : P(vs[i]))
IsPlain(v, k, ic) == v.t = "pat" /\ v.k = k /\ v.ic = ic /\ ~(k = "exact" /\ v.a = <<>>)
(* under str() numbers and booleans are exact strings (parser.rs:1145, 1171, 1192) *)
AsPat(v, e) == IF v.t = "pat" THEN v
               ELSE IF v.t = "num" THEN [t |-> "pat", k |-> "exact", ic |-> FALSE, a |-> NumText(v.n)]
               ELSE [t |-> "pat", k |-> "exact", ic |-> FALSE, a |-> BoolText(v.b)]
IsStringMember(v, e) == v.t = "pat" \/ (e.m = "str" /\ v.t \in {"num", "bool"})

ParseList(e) ==
  LET vs == e.v.vs
      cast == e.m = "str"
      pats == [i \in DOMAIN vs |-> IF IsStringMember(vs[i], e) THEN AsPat(vs[i], e) ELSE [t |-> "nopat", k |-> "", ic |-> FALSE, a |-> <<>>]]
      (* needles in the order starts_with, contains, ends_with, exact (parser.rs:1390-1437) *)
      Order == <<"prefix", "contains", "suffix", "exact">>
      Ctx(ic) == [j \in 1..0 |-> 0] \o
                 SelectSeq(
                   [q \in 1..(4 * Len(vs)) |->
                      LET kk == Order[((q - 1) \div Len(vs)) + 1] i == ((q - 1) % Len(vs)) + 1 IN
                      IF IsPlain(pats[i], kk, ic) THEN [k |-> kk, a |-> NeedleOf(pats[i])] ELSE [k |-> "", a |-> <<>>]],
                   LAMBDA c : c.k # "")
      EmptyExact == SelectSeq(pats, LAMBDA p : p.t = "pat" /\ p.k = "exact" /\ p.a = <<>>)
      Regs(ic) == SelectSeq(pats, LAMBDA p : p.t = "pat" /\ p.k = "regex" /\ p.ic = ic)
      needles == Ctx(FALSE)
      ineedles == Ctx(TRUE)
      g0 == [i \in DOMAIN EmptyExact |-> XSearch(SPlain("exact", <<>>), e.f, cast)]
      g1 == IF needles = <<>> THEN <<>>
            ELSE IF Len(needles) = 1 THEN <<XSearch(SPlain(needles[1].k, needles[1].a), e.f, cast)>>
            ELSE <<XSearch(SAho(needles, FALSE), e.f, cast)>>
      g2 == IF ineedles = <<>> THEN <<>> ELSE <<XSearch(SAho(ineedles, TRUE), e.f, cast)>>
      g3 == IF Regs(FALSE) = <<>> THEN <<>>
            ELSE IF Len(Regs(FALSE)) = 1 THEN <<XSearch(SRegex(Regs(FALSE)[1].a, FALSE), e.f, cast)>>
            ELSE <<XSearch(SRegexSet([i \in DOMAIN Regs(FALSE) |-> Regs(FALSE)[i].a], FALSE), e.f, cast)>>
      g4 == IF Regs(TRUE) = <<>> THEN <<>>
            ELSE IF Len(Regs(TRUE)) = 1 THEN <<XSearch(SRegex(Regs(TRUE)[1].a, TRUE), e.f, cast)>>
            ELSE <<XSearch(SRegexSet([i \in DOMAIN Regs(TRUE) |-> Regs(TRUE)[i].a], TRUE), e.f, cast)>>
      (* the rest, in written order: any, numbers, booleans, nulls, nested mappings *)
      restIdx == SelectSeq([i \in DOMAIN vs |-> i],
                           LAMBDA i : ~IsStringMember(vs[i], e) \/ (vs[i].t = "pat" /\ vs[i].k = "any"))
      rest == [j \in DOMAIN restIdx |->
                 LET v == vs[restIdx[j]] IN
                 IF v.t = "pat" THEN XSearch(SAny, e.f, cast) ELSE ParseValue(v, e, Unmatched(e))]
      multiple == Len(needles) >= 2 \/ ineedles # <<>> \/ Len(Regs(FALSE)) >= 2 \/ Len(Regs(TRUE)) >= 2
      group == g0 \o g1 \o g2 \o g3 \o g4 \o rest
  IN IF ~multiple /\ Len(group) = 1 /\ ~(e.m = "of" /\ e.c # 1) THEN group[1]
     ELSE IF e.m \in {"all", "of"}
          THEN IF Len(group) = 1 THEN XMatch(e.m, e.c, group[1]) ELSE XMatch(e.m, e.c, XGroup("or", group))
     ELSE XGroup("or", group)

ParseEntry(e) ==
  LET x == IF e.v.t = "list" THEN ParseList(e) ELSE ParseValue(e.v, e, KeyExpr(e)) IN
  IF e.m = "not" THEN XNeg(x) ELSE x

ParseMapping(es) ==
  IF Len(es) = 1 THEN ParseEntry(es[1]) ELSE XGroup("and", [i \in DOMAIN es |-> ParseEntry(es[i])])

ParseBody(b) == IF b.t = "map" THEN ParseMapping(b.es)
                ELSE XGroup("or", [i \in DOMAIN b.ms |-> ParseMapping(b.ms[i].es)])

RECURSIVE ParseOperand(_), ParseCond(_)
ParseOperand(o) == IF o.t = "par" THEN ParseOperand(o.e)
                   ELSE IF o.t = "cast" THEN XCast(o.f, o.k) ELSE XNum(o.n)
ParseCond(c) ==
  CASE c.t = "id"  -> XIdent(c.n)
    [] c.t \in {"and", "or"} -> XBexp(ParseCond(c.l), c.t, ParseCond(c.r))
    [] c.t = "not" -> XNeg(ParseCond(c.e))
    [] c.t = "par" -> ParseCond(c.e)
    [] c.t = "all" -> XMatch("all", 0, XIdent(c.n))
    [] c.t = "of"  -> XMatch("of", c.c, XIdent(c.n))
    [] c.t = "cmp" -> XBexp(ParseOperand(c.l), c.op, ParseOperand(c.r))

(* a parsed rule: the condition tree and the identifier map *)
ParseSrc(src) == [x |-> ParseCond(src.cond),
                  ids |-> [i \in DOMAIN src.ids |-> <<src.ids[i][1], ParseBody(src.ids[i][2])>>]]

-----------------------------------------------------------------------------
(* Solver.  Documents: a tagged tree (the user's document or a nested object), a matrix cache    *)
(* [t |-> "cache", vals] addressed by synthetic one-character keys, or a pass-through document   *)
(* [t |-> "pass", v].                                                                           *)
DFind(doc, key) ==
  IF doc.t = "cache" THEN doc.vals[key[1] + 1]            \* Cache::find: the key's first char is the column
  ELSE IF doc.t = "pass" THEN doc.v
  ELSE Find(doc, key)

(* search(kind, value) on one string: solver.rs:1340-1400 *)
SearchStr(s, h) ==
  CASE s.k = "any" -> TRUE
    [] s.k = "exact" -> s.a = h
    [] s.k = "contains" -> StrInfix(s.a, h)
    [] s.k = "suffix" -> StrSuffix(s.a, h)
    [] s.k = "prefix" -> StrPrefix(s.a, h)
    [] s.k = "regex" -> ReSearch(s.r, s.ic, h)
    [] s.k = "regexset" -> \E i \in DOMAIN s.rs : ReSearch(s.rs[i], s.ic, h)
    [] s.k = "aho" -> AhoAny(s.ctx, s.ic, h)
(* number of members of a batch that hit: slow_aho / RegexSet::matches *)
SearchCount(s, h) ==
  IF s.k = "aho" THEN AhoCount(s.ctx, s.ic, h)
  ELSE Cardinality({i \in DOMAIN s.rs : ReSearch(s.rs[i], s.ic, h)})
BatchLen(s) == IF s.k = "aho" THEN Len(s.ctx) ELSE Len(s.rs)

HasTextE(v, cast) == v.t = "S" \/ (cast /\ v.t \in {"B", "I", "F"})
TriOf(b) == IF b THEN "T" ELSE "F"

(* Expression::Search: solver.rs:802-862 *)
SolveSearch(x, doc) ==
  LET v == DFind(doc, x.f) IN
  IF IsNone(v) THEN "M"
  ELSE IF x.c /\ ~AllTextKnown(v) THEN "U"              \* Display of a long float is not modelled
  ELSE IF HasTextE(v, x.c) THEN TriOf(SearchStr(x.s, StrCast(v)))
  ELSE IF v.t = "A" THEN TriOf(\E i \in DOMAIN v.vs : HasTextE(v.vs[i], x.c) /\ SearchStr(x.s, StrCast(v.vs[i])))
  ELSE "M"

(* the comparison table by value representation: solver.rs:462-531 *)
ReprOf(v) == IF v.t = "F" THEN "Float" ELSE IF v.neg /\ StripLead(v.d) # <<>> THEN "Int" ELSE "UInt"
NumAsDoc(n) == IF n.k = "i" THEN [t |-> "I", neg |-> n.neg, d |-> n.d]
               ELSE [t |-> "F", neg |-> n.neg, d |-> n.d, fr |-> n.fr, sp |-> n.sp]
(* operands after casting: [t |-> "val", v, r] with r the representation, or a result "M"/"F"   *)
OpVal(v, r) == [t |-> "val", v |-> v, r |-> r]
OpRes(x) == [t |-> "res", v |-> [t |-> "N"], r |-> x]       \* the operand already decides the result: "M" / "F" / "U"
CmpTable(op, x, y) ==
  LET nx == NumOf(x.v) ny == NumOf(y.v) IN
  IF x.r = "Bool" \/ y.r = "Bool" \/ x.r = "Null" \/ y.r = "Null"
  THEN (op = "eq" /\ x.r = "Bool" /\ y.r = "Bool" /\ x.v.b = y.v.b)
  ELSE IF x.r = y.r THEN NumRel(op, nx, ny)
  ELSE IF x.r = "UInt" /\ y.r = "Int"
       THEN IF DigLe(x.v.d, MaxI64) THEN NumRel(op, nx, ny) ELSE op \in {"gt", "ge"}
  ELSE IF x.r = "Int" /\ y.r = "UInt"
       THEN IF DigLe(y.v.d, MaxI64) THEN NumRel(op, nx, ny) ELSE op \in {"lt", "le"}
  ELSE FALSE

IntRepr(n) == IF n.neg /\ StripLead(n.d) # <<>> THEN "Int" ELSE "Int"     \* casts and constants yield Value::Int
OperandE(o, doc) ==
  CASE o.t = "field" ->
         LET v == DFind(doc, o.f) IN
         IF IsNone(v) THEN OpRes("M") ELSE IF v.t \in {"I", "F"} THEN OpVal(v, ReprOf(v)) ELSE OpRes("F")
    [] o.t = "xcast" /\ o.k = "flt" ->
         LET v == DFind(doc, o.f) r == FltCast(v) IN
         IF r.t = "miss" THEN OpRes("M") ELSE IF r.t = "num" THEN OpVal(NumAsDoc(r.n), "Float")
         ELSE IF r.t = "unk" THEN OpRes("U") ELSE OpRes("F")
    [] o.t = "xcast" /\ o.k = "int" ->
         LET v == DFind(doc, o.f) r == IntCast(v) IN
         IF r.t = "miss" THEN OpRes("M") ELSE IF r.t = "num" THEN OpVal(NumAsDoc(r.n), "Int")
         ELSE IF r.t = "unk" THEN OpRes("U") ELSE OpRes("F")
    [] o.t = "xbool" -> OpVal([t |-> "B", b |-> o.b], "Bool")
    [] o.t = "xnum" -> OpVal(NumAsDoc(o.n), IF o.n.k = "f" THEN "Float" ELSE "Int")
    [] OTHER -> OpRes("F")                                   \* "encountered invalid ... hand side"

SolveCmp(x, doc) ==
  IF x.l.t = "xcast" /\ x.l.k = "str" /\ x.op = "eq" /\ x.r.t = "xcast" /\ x.r.k = "str"
  THEN LET a == DFind(doc, x.l.f) b == DFind(doc, x.r.f) IN
       IF IsNone(a) THEN "M" ELSE IF ~HasStr(a) THEN "F"
       ELSE IF IsNone(b) THEN "M" ELSE IF ~HasStr(b) THEN "F"
       ELSE IF ~TextKnown(a) \/ ~TextKnown(b) THEN "U"
       ELSE TriOf(StrCast(a) = StrCast(b))
  ELSE IF x.l.t = "field" /\ x.op = "eq" /\ x.r.t = "xbool"
  THEN LET v == DFind(doc, x.l.f) IN IF IsNone(v) THEN "M" ELSE IF v.t = "B" THEN TriOf(v.b = x.r.b) ELSE "F"
  ELSE IF x.l.t = "field" /\ x.op = "eq" /\ x.r.t = "xnull"
  THEN LET v == DFind(doc, x.l.f) IN IF IsNone(v) THEN "M" ELSE TriOf(v.t = "N")
  ELSE LET a == OperandE(x.l, doc) IN
       IF a.t = "res" THEN a.r
       ELSE LET b == OperandE(x.r, doc) IN
            IF b.t = "res" THEN b.r ELSE TriOf(CmpTable(x.op, a, b))

LookupX(ids, n) == LET idx == {i \in DOMAIN ids : ids[i][1] = n} IN
                   IF idx = {} THEN XNONE ELSE ids[MinOf(idx)][2]

(* three-valued results plus "P" (a panic: unreachable!/expect) and "U" (outside the model)     *)
RECURSIVE Solve(_, _, _), SolveSeq(_, _, _), MatchAll(_, _, _), MatchOf(_, _, _, _),
          SolveMatrixRows(_, _, _, _, _), SolveRow(_, _, _, _, _, _)

SolveSeq(g, ids, doc) == [i \in DOMAIN g |-> Solve(g[i], ids, doc)]

Strict(rs, r) == IF \E i \in DOMAIN rs : rs[i] = "P" THEN "P"
                 ELSE IF \E i \in DOMAIN rs : rs[i] = "U" THEN "U" ELSE r

(* batched search under a quantifier on value v: per string for scalars, per ELEMENT for arrays *)
BatchHits(s, v, cast) ==     \* the largest hit count over the strings the value offers
  IF HasTextE(v, cast) THEN SearchCount(s, StrCast(v))
  ELSE LET cs == {SearchCount(s, StrCast(v.vs[i])) : i \in {j \in DOMAIN v.vs : HasTextE(v.vs[j], cast)}} IN
       IF cs = {} THEN 0 ELSE MaxOf(cs)

(* match_all: solver.rs:874-1099 *)
MatchAll(x, ids, doc) ==
  IF x.t = "search" /\ x.s.k \in {"aho", "regexset"}
  THEN LET v == DFind(doc, x.f) IN
       IF IsNone(v) THEN "M"
       ELSE IF HasTextE(v, x.c) \/ v.t = "A" THEN TriOf(BatchHits(x.s, v, x.c) = BatchLen(x.s))
       ELSE "M"
  ELSE IF x.t = "matrix" THEN SolveMatrixRows(x, ids, doc, "all", 0)
  ELSE Solve(x, ids, doc)

(* match_of: solver.rs:1102-1337 *)
MatchOf(x, ids, doc, c) ==
  IF c = 0 THEN LET r == Solve(x, ids, doc) IN IF r = "T" THEN "F" ELSE IF r = "F" THEN "T" ELSE r
  ELSE IF x.t = "search" /\ x.s.k \in {"aho", "regexset"}
  THEN LET v == DFind(doc, x.f) IN
       IF IsNone(v) THEN "M"
       ELSE IF HasTextE(v, x.c) \/ v.t = "A" THEN TriOf(BatchHits(x.s, v, x.c) >= c)
       ELSE "M"
  ELSE IF x.t = "matrix" THEN SolveMatrixRows(x, ids, doc, "of", c)
  ELSE LET r == Solve(x, ids, doc) IN IF r = "T" /\ c > 1 THEN "M" ELSE r

(* one matrix row against the cache: cells in column order, first non-true ends the row *)
SolveRow(row, cols, ids, doc, i, vals) ==
  IF i > Len(row) THEN "T"
  ELSE IF row[i].t = "xnone" THEN SolveRow(row, cols, ids, doc, i + 1, vals)
  ELSE IF IsNone(vals[i]) THEN "M"
  ELSE LET r == Solve(row[i], ids, [t |-> "cache", vals |-> vals]) IN
       IF r = "T" THEN SolveRow(row, cols, ids, doc, i + 1, vals) ELSE r

(* Matrix: solver.rs:650-700 (mode "or"), and the all / of variants in match_all / match_of *)
SolveMatrixRows(x, ids, doc, mode, c) ==
  LET vals == [i \in DOMAIN x.cols |-> DFind(doc, x.cols[i])]
      hits == [j \in DOMAIN x.rows |-> SolveRow(x.rows[j], x.cols, ids, doc, 1, vals)]
  IN IF mode = "or" THEN Strict(hits, EngOrGroup(hits))
     ELSE IF mode = "all" THEN Strict(hits, EngAndGroup(hits))
     ELSE Strict(hits, EngOfGroup(c, hits))

Solve(x, ids, doc) ==
  CASE x.t = "group" ->
         LET rs == SolveSeq(x.g, ids, doc) IN
         Strict(rs, IF x.op = "and" THEN EngAndGroup(rs) ELSE EngOrGroup(rs))
    [] x.t = "bexp" ->
         IF x.op \in {"and", "or"}
         THEN LET a == Solve(x.l, ids, doc) b == Solve(x.r, ids, doc) IN
              Strict(<<a, b>>, IF x.op = "and" THEN EngAnd2(a, b) ELSE EngOr2(a, b))
         ELSE SolveCmp(x, doc)
    [] x.t = "ident" -> LET b == LookupX(ids, x.n) IN IF b.t = "xnone" THEN "P" ELSE Solve(b, ids, doc)
    [] x.t = "match" ->
         LET inner == IF x.e.t = "ident" THEN LookupX(ids, x.e.n) ELSE x.e IN
         IF inner.t = "xnone" THEN "P"
         ELSE IF inner.t = "group"
              THEN LET rs == SolveSeq(inner.g, ids, doc) IN
                   Strict(rs, IF x.m = "all" THEN EngAllGroup(rs) ELSE EngOfGroup(x.c, rs))
         ELSE IF x.m = "all" THEN MatchAll(inner, ids, doc) ELSE MatchOf(inner, ids, doc, x.c)
    [] x.t = "matrix" -> SolveMatrixRows(x, ids, doc, "or", 0)
    [] x.t = "neg" -> LET r == Solve(x.e, ids, doc) IN IF r \in {"P", "U"} THEN r ELSE EngNot(r)
    [] x.t = "nested" ->
         LET v == DFind(doc, x.f) IN
         IF IsNone(v) THEN "M"
         ELSE IF v.t = "O" THEN Solve(x.e, ids, v)
         ELSE IF v.t = "A"
              THEN LET objs == SelectSeq(v.vs, LAMBDA o : o.t = "O") IN
                   IF x.e.t = "match" /\ x.e.m = "all" /\ x.e.e.t = "group" /\ x.e.e.op = "or"
                   THEN (* every expression must be satisfied by SOME element: solver.rs:721-741 *)
                        LET per == [j \in DOMAIN x.e.e.g |->
                                      EngOrGroup([i \in DOMAIN objs |-> Solve(x.e.e.g[j], ids, objs[i])])] IN
                        EngAndGroup(per)
                   ELSE IF x.e.t = "match" /\ x.e.m = "all" /\ x.e.e.t = "matrix" THEN "U"
                   ELSE TriOf(\E i \in DOMAIN objs : Solve(x.e, ids, objs[i]) = "T")
         ELSE "F"
    [] x.t = "search" -> SolveSearch(x, doc)
    [] OTHER -> "P"                                           \* unreachable!()

EngEval(src, doc) == LET p == ParseSrc(src) IN Solve(p.x, p.ids, doc)
=============================================================================
