------------------------------- MODULE TraceTau -----------------------------
(***************************************************************************)
(* Trace validation: a history recorded from the real engine (ndjson, one  *)
(* API-level event per line, written by harness/tvh) is checked to be a    *)
(* behaviour of TauRule.  Every event carries its arguments and result, so *)
(* the search is linear in the trace length.                               *)
(*                                                                         *)
(* The trace spec never blocks: an event the specification does not allow  *)
(* is JUDGED (one "JUDGE {json}" line on stdout), the state is re-synced   *)
(* from the event, and validation continues with the rest of the trace.    *)
(* The POSTCONDITION requires that the whole trace was consumed; the       *)
(* runner decides the exit status from the JUDGE lines.                    *)
(***************************************************************************)
EXTENDS TauRule, TauKnown, TauIdent, TauKeys, TauKeyText, TauOpt, Json, IOUtils, TLC

Rec == ndJsonDeserialize(IOEnv.TRACE)

VARIABLES l,      \* next line of the trace (1-based)
          cl,     \* line of the current case event
          nbad    \* number of judged events so far

tvars == <<cur, phase, objs, den, prints, l, cl, nbad>>

e == Rec[l]
IsEv(n) == l <= Len(Rec) /\ e.ev = n
Adv == l' = l + 1

Good == nbad' = nbad /\ UNCHANGED cl
(* rule: which clause of the specification rejected the event *)
DocOf(info) == IF "d" \in DOMAIN info THEN info.d + 1 ELSE 0
Bad(rule, info) ==
  /\ PrintT("JUDGE " \o ToJson([l |-> l, cl |-> cl, rule |-> rule, info |-> info,
                                 also |-> IF "also" \in DOMAIN info THEN info.also ELSE <<>>,
                                 devs |-> SetSeq(Devs(cur, DocOf(info)))]))
  /\ nbad' = nbad + 1 /\ UNCHANGED cl

TrInit == RInit /\ l = 1 /\ cl = 0 /\ nbad = 0

(* a case may carry the tree its condition text was rendered from (C05: redundant parentheses   *)
(* and extra spaces): the reference grammar must read exactly that tree back                    *)
RECURSIVE StripPar(_)
StripPar(c) ==
  CASE c.t = "par" -> StripPar(c.e)
    [] c.t \in {"and", "or"} -> [t |-> c.t, l |-> StripPar(c.l), r |-> StripPar(c.r)]
    [] c.t = "not" -> [t |-> "not", e |-> StripPar(c.e)]
    [] c.t = "cmp" -> [t |-> "cmp", op |-> c.op, l |-> StripPar(c.l), r |-> StripPar(c.r)]
    [] OTHER -> c
RefTreeOk(c) == IF "reftree" \in DOMAIN c /\ "src" \in DOMAIN c /\ IsText(c.src)
                THEN ParseText(c.src) = StripPar(c.reftree) ELSE TRUE
TrCase == /\ IsEv("case") /\ NewCase(e.c) /\ Adv /\ cl' = l
          /\ IF RefTreeOk(e.c) THEN nbad' = nbad
             ELSE /\ PrintT("JUDGE " \o ToJson([l |-> l, cl |-> l, rule |-> "ref_tree", info |-> [out |-> "spec"], devs |-> <<>>]))
                  /\ nbad' = nbad + 1

TrSkip == /\ IsEv("skip") /\ Adv /\ Good /\ UNCHANGED rvars

TrLoad ==
  /\ IsEv("load") /\ Adv
  /\ IF phase = "idle" /\ e.out \in LoadOutcomes(cur)
     THEN Load(e.out) /\ Good
     ELSE /\ Bad(IF e.out \in {"panic", "loop"} THEN "load_panic" ELSE "load_outcome", [out |-> e.out])
          /\ phase' = IF e.out = "ok" THEN "loaded" ELSE "failed"
          /\ UNCHANGED <<cur, objs, den, prints>>

(* second load path (from_value): must agree with the first (C14) *)
TrLoad2 ==
  /\ IsEv("load2") /\ Adv /\ UNCHANGED rvars
  /\ IF (e.out = "ok") = (phase = "loaded") /\ e.out \notin {"panic", "loop"} THEN Good
     ELSE Bad(IF e.out \in {"panic", "loop"} THEN "load_panic" ELSE "load_paths_differ", [out |-> e.out])

TrOpt ==
  /\ IsEv("opt") /\ Adv
  /\ LET ex == IF "expr" \in DOMAIN e THEN e.expr ELSE <<>> IN
     IF phase = "loaded" /\ IsSw(e.sw) /\ e.obj = Len(objs) /\ e.out = "ok" /\ PrintOk(e.sw, ex)
     THEN Optimise(e.obj, e.sw, e.out, ex) /\ Good
     ELSE /\ Bad(IF e.out = "panic" THEN "opt_panic"
                 ELSE IF ~PrintOk(e.sw, ex) THEN "print_differs" ELSE "opt_protocol",
                 [out |-> e.out, sw |-> e.sw])
          /\ objs' = Append(objs, [sw |-> e.sw, st |-> IF e.out = "ok" THEN "ok" ELSE "dead", src |-> 0])
          /\ UNCHANGED <<cur, phase, den, prints>>

(* Engine-layer conformance (not a property clause): the three-valued result the transcribed     *)
(* parser + solver (TauEngine) predict for the not-optimised rule is compared with the observed *)
(* one; a difference is printed as rule "model_drift" and never counted as a violation.         *)
(* what the engine-layer model predicts for object k on document d ("-" when not modelled: an  *)
(* optimised object, a condition that does not parse)                                          *)
EngOf(k, d) == IF phase = "loaded" /\ k + 1 \in DOMAIN objs /\ d \in DOMAIN cur.docs
                  /\ "src" \in DOMAIN cur /\ TextOk(SrcOf(k))
               THEN EngEvalOpt(Ast(SrcOf(k)), objs[k + 1].sw, cur.docs[d]) ELSE "-"
(* the model's explanation of the verdict the denotation is bound to: "T"/"F" if SOME object of   *)
(* the same class (any switch set in scope, any alternative source) is predicted to give that    *)
(* verdict, "-" otherwise                                                                      *)
Eng0Of(k, d) ==
  IF phase = "loaded" /\ d \in DOMAIN cur.docs /\ "src" \in DOMAIN cur /\ k + 1 \in DOMAIN objs
     /\ DK(k, d) \in DOMAIN den
  THEN LET want == den[DK(k, d)]
           ok == \E j \in 0..(Len(objs) - 1) :
                    DK(j, d) = DK(k, d) /\ TextOk(SrcOf(j)) /\ (EngOf(j, d) = "T") = want /\ EngOf(j, d) \notin {"U", "-", "P"}
       IN IF ok THEN (IF want THEN "T" ELSE "F") ELSE "-"
  ELSE "-"
(* the model's explanation is only needed where the run's property judges verdicts (the runner     *)
(* sets EXPLAIN=0 for properties that judge outcomes and panics only): it costs an evaluation of  *)
(* the optimiser model per judged event                                                          *)
Explain == IOEnv.EXPLAIN # "0"
WantEng == "plan" \in DOMAIN cur /\ "eng" \in DOMAIN cur.plan /\ cur.plan.eng
EngDrift(k, d, out) ==
  IF WantEng /\ phase = "loaded" /\ k + 1 \in DOMAIN objs /\ d \in DOMAIN cur.docs /\ TextOk(SrcOf(k))
  THEN LET m == EngOf(k, d)
           same == IF out \in {"t", "f"} THEN (m = "T") = (out = "t") ELSE m = out IN
       IF m \in {"U", "-"} \/ same THEN TRUE
       ELSE PrintT("JUDGE " \o ToJson([l |-> l, cl |-> cl, rule |-> "model_drift",
                                        info |-> [obj |-> k, d |-> d - 1, out |-> out, model |-> m,
                                                  sw |-> objs[k + 1].sw], devs |-> <<>>]))
  ELSE TRUE

OutBool(o) == o = "t"
(* the two clauses a verdict can violate: the language layer's admissible set, the bound denotation *)
OracleBad(k, d, v) == d \in DOMAIN cur.docs /\ HasOracle(cur) /\ TextOk(SrcOf(k))
                      /\ v \notin LangVerdicts(Ast(SrcOf(k)), cur.docs[d])
DenBad(k, d, v) == d \in DOMAIN cur.docs /\ DK(k, d) \in DOMAIN den /\ den[DK(k, d)] # v
TrMatch ==
  /\ IsEv("match") /\ Adv /\ EngDrift(e.obj, e.d + 1, e.out)
  /\ LET d == e.d + 1 v == OutBool(e.out) IN
     IF e.out \in {"t", "f"} /\ phase = "loaded" /\ e.obj + 1 \in DOMAIN objs /\ d \in DOMAIN cur.docs
        /\ v \in Allowed(e.obj, d)
     THEN Match(e.obj, d, v) /\ Good
     ELSE /\ Bad(IF e.out = "p" THEN "match_panic"
                 ELSE IF OracleBad(e.obj, d, v) THEN "oracle" ELSE "den",
                 [obj |-> e.obj, d |-> e.d, out |-> e.out,
                  also |-> IF e.out # "p" /\ OracleBad(e.obj, d, v) /\ DenBad(e.obj, d, v) THEN <<"den">> ELSE <<>>,
                  lang |-> IF d \in DOMAIN cur.docs /\ HasOracle(cur) THEN SetSeq(TriAllowed(d)) ELSE <<>>,
                  eng |-> IF Explain THEN EngOf(e.obj, d) ELSE "-",
                  eng0 |-> IF Explain THEN Eng0Of(e.obj, d) ELSE "-",
                  den0 |-> IF DK(e.obj, d) \in DOMAIN den THEN (IF den[DK(e.obj, d)] THEN "t" ELSE "f") ELSE "-",
                  sw |-> IF e.obj + 1 \in DOMAIN objs THEN objs[e.obj + 1].sw ELSE <<>>])
          \* re-sync: an observation the oracle rejects still binds the denotation, so that later
          \* observations of the same class are compared with it
          /\ den' = IF e.out \in {"t", "f"} /\ d \in DOMAIN cur.docs THEN Bind(e.obj, d, v) ELSE den
          /\ UNCHANGED <<cur, phase, objs, prints>>

TrTri ==
  /\ IsEv("tri") /\ Adv /\ EngDrift(e.obj, e.d + 1, e.out)
  /\ LET d == e.d + 1 IN
     IF e.out \in Tri /\ phase = "loaded" /\ e.obj + 1 \in DOMAIN objs /\ d \in DOMAIN cur.docs
        /\ e.out \in TriAllowed(d) /\ (IF DK(e.obj, d) \in DOMAIN den THEN den[DK(e.obj, d)] = Verdict(e.out) ELSE TRUE)
     THEN ObserveTri(e.obj, d, e.out) /\ Good
     ELSE /\ Bad(IF e.out = "P" THEN "match_panic"
                 ELSE IF e.out = "X" THEN "tri_both"
                 ELSE IF e.out \in Tri /\ e.out \in TriAllowed(d) THEN "den" ELSE "tri_oracle",
                 [obj |-> e.obj, d |-> e.d, out |-> e.out,
                  lang |-> IF d \in DOMAIN cur.docs /\ HasOracle(cur) THEN SetSeq(TriAllowed(d)) ELSE <<>>,
                  eng |-> IF Explain THEN EngOf(e.obj, d) ELSE "-",
                  eng0 |-> IF Explain THEN Eng0Of(e.obj, d) ELSE "-",
                  den0 |-> IF DK(e.obj, d) \in DOMAIN den THEN (IF den[DK(e.obj, d)] THEN "t" ELSE "f") ELSE "-",
                  sw |-> IF e.obj + 1 \in DOMAIN objs THEN objs[e.obj + 1].sw ELSE <<>>])
          /\ UNCHANGED rvars

SeqSet(q) == {q[i] : i \in DOMAIN q}
TrValidate ==
  /\ IsEv("validate") /\ Adv /\ UNCHANGED rvars
  /\ IF e.out # "panic" /\ phase = "loaded" /\ e.obj + 1 \in DOMAIN objs /\ ExamplesBound(e.obj)
        /\ ValidateOk(e.obj, e.out, e.kind, SeqSet(e.named))
     THEN Good
     ELSE Bad(IF e.out = "panic" THEN "validate_panic"
              ELSE IF ~ExamplesBound(e.obj) THEN "validate_unbound" ELSE "validate",
              [out |-> e.out, kind |-> e.kind, named |-> e.named,
               failing |-> IF ExamplesBound(e.obj) THEN SetSeq(Failing(e.obj)) ELSE <<>>])

TrSer ==
  /\ IsEv("ser") /\ Adv /\ UNCHANGED rvars
  /\ IF e.out = "ok" THEN Good ELSE Bad(IF e.out = "panic" THEN "ser_panic" ELSE "ser_error", [out |-> e.out])

TrReload ==
  /\ IsEv("reload") /\ Adv
  /\ IF phase = "loaded" /\ e.from + 1 \in DOMAIN objs /\ e.obj = Len(objs) /\ e.out = "ok" /\ e.same
     THEN Reload(e.from, e.obj, e.out, e.same) /\ Good
     ELSE /\ Bad(IF e.out \in {"panic", "loop"} THEN "load_panic"
                 ELSE IF e.out # "ok" THEN "reload_fails" ELSE "reload_differs",
                 [out |-> e.out, via |-> e.via])
          /\ objs' = Append(objs, [sw |-> <<>>, st |-> IF e.out = "ok" THEN "ok" ELSE "dead", src |-> 0])
          /\ UNCHANGED <<cur, phase, den, prints>>

(* ----- the textual layers on their own (C04, C07, C15) ----- *)
StringKinds == {"any", "contains", "suffix", "prefix", "exact"}
TrIdent ==
  /\ IsEv("ident") /\ Adv /\ UNCHANGED rvars
  \* which build executed the call: events merged in from the ignore_case harness carry build = "ic"
  /\ LET icb == IF "build" \in DOMAIN e THEN e.build = "ic" ELSE cur.icb
         m == IntoId(cur.text, icb, {}) IN
     IF e.out = "panic" THEN Bad("ident_panic", [out |-> e.out])
     ELSE IF m.st = "ok" /\ (e.out # "ok" \/ e.k # m.k \/ e.ic # m.ic)
          THEN Bad("ident_parse", [out |-> e.out, k |-> e.k, ic |-> e.ic, want |-> m])
     ELSE IF m.st = "ok" /\ m.k \in StringKinds /\ e.a # m.a
          THEN Bad("ident_parse", [out |-> e.out, k |-> e.k, a |-> e.a, want |-> m])
     ELSE IF m.st = "err" /\ e.out # "err" THEN Bad("ident_parse", [out |-> e.out, k |-> e.k, want |-> m])
     ELSE IF m.st = "unk" /\ e.out = "ok" /\ e.k # m.k THEN Bad("ident_parse", [out |-> e.out, k |-> e.k, want |-> m])
     \* a regex that compiles is compiled from exactly the text after the `?`, with the case flag
     ELSE IF m.st = "unk" /\ e.out = "ok" /\ m.k = "regex" /\ (e.a # m.a \/ e.ic # m.ic)
          THEN Bad("ident_parse", [out |-> e.out, k |-> e.k, a |-> e.a, ic |-> e.ic, want |-> m])
     ELSE Good

(* the textual layer of mapping KEYS on its own (C04, C02, C16): spec/TauKeyText.tla *)
TrKey ==
  /\ IsEv("key") /\ Adv /\ UNCHANGED rvars
  /\ LET a == KeyAdm(cur.text, e.seq)
         eng == KeyEng(cur.text, e.seq)
         obs == [st |-> e.out, m |-> e.m, n |-> e.n, f |-> e.f]
         \* explained by the recorded finding: the engine-layer model (which re-joins words with one
         \* blank) predicts exactly this observation and it is the pinned meaning with collapsed blanks
         kws == IF a.pinned /\ obs = eng /\ obs = KCollapsed(a.want) /\ obs # a.want THEN <<"key_whitespace">> ELSE <<>>
         KBad(rule, info) == /\ PrintT("JUDGE " \o ToJson([l |-> l, cl |-> cl, rule |-> rule, info |-> info,
                                                            also |-> <<>>, devs |-> kws]))
                             /\ nbad' = nbad + 1 /\ UNCHANGED cl IN
     IF e.out \in {"panic", "loop"} THEN KBad("key_panic", [out |-> e.out, seq |-> e.seq])
     ELSE IF e.out = "odd" THEN KBad("key_parse", [out |-> e.out, seq |-> e.seq, f |-> e.f])
     ELSE IF a.pinned /\ obs # a.want
          THEN KBad("key_parse", [out |-> e.out, seq |-> e.seq, m |-> e.m, n |-> e.n, f |-> e.f, want |-> a.want, model |-> eng])
     ELSE IF e.out = "ok" /\ ~KWritten(e.f, cur.text)
          THEN KBad("key_fabricated", [seq |-> e.seq, f |-> e.f])
     ELSE Good

(* arbitrary text / YAML shapes: loading and every textual layer return a value or an error *)
TrFload ==
  /\ IsEv("fload") /\ Adv /\ UNCHANGED rvars
  /\ IF e.out \in {"ok", "err"} THEN Good ELSE Bad("load_panic", [out |-> e.out, via |-> e.via])
TrCore ==
  /\ IsEv("core") /\ Adv /\ UNCHANGED rvars
  /\ IF e.out \in {"ok", "err"} THEN Good
     ELSE Bad(IF e.f \in {"optimise", "validate"} THEN "accepted_panic" ELSE "load_panic", [out |-> e.out, f |-> e.f])

(* Object::find / Document::find observed directly (C10): the value returned for a well-formed   *)
(* key is the value reached by descent; objects are compared with their members sorted by key.  *)
TrFound ==
  /\ IsEv("found") /\ Adv /\ UNCHANGED rvars
  /\ LET key == cur.keys[e.k + 1]
         want == Find(cur.doc, key) IN
     IF e.out = "panic" THEN Bad("find_panic", [key |-> key, repr |-> e.repr])
     ELSE IF ~CheckablePath(key) THEN Good                       \* totality only
     ELSE IF (e.out = "none") # IsNone(want) THEN Bad("find_value", [key |-> key, repr |-> e.repr, out |-> e.out, want |-> want])
     ELSE IF e.out = "some" /\ e.v # want THEN Bad("find_value", [key |-> key, repr |-> e.repr, got |-> e.v, want |-> want])
     ELSE Good

TrAlt ==
  /\ IsEv("alt") /\ Adv
  /\ IF phase = "loaded" /\ e.from + 1 \in DOMAIN objs /\ e.obj = Len(objs) /\ e.out = "ok"
        /\ "alts" \in DOMAIN cur /\ e.i + 1 \in DOMAIN cur.alts
     THEN LoadAlt(e.i, e.from, e.obj, e.out) /\ Good
     ELSE /\ Bad(IF e.out \in {"panic", "loop"} THEN "load_panic" ELSE "alt_fails", [out |-> e.out, i |-> e.i])
          /\ objs' = Append(objs, [sw |-> <<>>, st |-> "dead", src |-> 0])
          /\ UNCHANGED <<cur, phase, den, prints>>

(* a second optimise() on an optimised object is the identity *)
TrReopt ==
  /\ IsEv("reopt") /\ Adv
  /\ IF phase = "loaded" /\ e.from + 1 \in DOMAIN objs /\ e.obj = Len(objs) /\ e.out = "ok" /\ e.same
        /\ objs[e.from + 1].st = "ok" /\ objs[e.from + 1].sw # NoSw
     THEN ReOptimise(e.from, e.obj, e.out, e.same) /\ Good
     ELSE /\ Bad(IF e.out = "panic" THEN "opt_panic" ELSE "reopt_differs", [out |-> e.out, from |-> e.from, sw2 |-> e.sw2])
          \* re-sync: the object exists and is compared with its class all the same
          /\ objs' = Append(objs, IF e.out = "ok" /\ e.from + 1 \in DOMAIN objs
                                   THEN [sw |-> objs[e.from + 1].sw, st |-> "ok", src |-> objs[e.from + 1].src]
                                   ELSE [sw |-> <<>>, st |-> "dead", src |-> 0])
          /\ UNCHANGED <<cur, phase, den, prints>>

(* the owner exchanged the example lists of a clone *)
TrEdit ==
  /\ IsEv("edit") /\ Adv
  /\ IF phase = "loaded" /\ e.from + 1 \in DOMAIN objs /\ e.obj = Len(objs) /\ e.out = "ok" /\ objs[e.from + 1].st = "ok"
     THEN EditExamples(e.from, e.obj, e.out) /\ Good
     ELSE /\ Bad("edit_protocol", [out |-> e.out, from |-> e.from])
          /\ objs' = Append(objs, [sw |-> <<>>, st |-> "dead", src |-> 0])
          /\ UNCHANGED <<cur, phase, den, prints>>

(* C16: a match through a recording document.  The verdict is an ordinary observation; every    *)
(* find(key) the engine made, on the root or on a nested object, must be for a key the rule     *)
(* writes for that position.                                                                  *)
BadCalls == {i \in DOMAIN e.calls : ~FindAllowed(Ast(cur.src), e.calls[i][1], e.calls[i][2])}
TrFinds ==
  /\ IsEv("finds") /\ Adv
  /\ LET d == e.d + 1 v == OutBool(e.out) IN
     IF e.out \in {"t", "f"} /\ phase = "loaded" /\ e.obj + 1 \in DOMAIN objs /\ d \in DOMAIN cur.docs
        /\ v \in Allowed(e.obj, d) /\ BadCalls = {}
     THEN Match(e.obj, d, v) /\ Good
     ELSE /\ Bad(IF e.out = "p" THEN "match_panic"
                 ELSE IF BadCalls # {} THEN "find_key"
                 ELSE IF OracleBad(e.obj, d, v) THEN "oracle" ELSE "den",
                 [obj |-> e.obj, d |-> e.d, out |-> e.out,
                  also |-> (IF e.out # "p" /\ BadCalls # {} /\ OracleBad(e.obj, d, v) THEN <<"oracle">> ELSE <<>>)
                           \o (IF e.out # "p" /\ DenBad(e.obj, d, v) /\ (BadCalls # {} \/ OracleBad(e.obj, d, v)) THEN <<"den">> ELSE <<>>),
                  bad |-> IF BadCalls = {} THEN <<>> ELSE e.calls[MinOf(BadCalls)]])
          /\ UNCHANGED rvars

(* C15: the same case loaded by the ignore_case build; its objects join the case, so their      *)
(* verdicts are held against the same denotation (and the same oracle: every pattern of a C15   *)
(* case is case-insensitive)                                                                  *)
TrIcLoad ==
  /\ IsEv("icload") /\ Adv /\ UNCHANGED rvars
  /\ IF e.out \notin {"panic", "loop"} /\ (e.out = "ok") = (phase = "loaded") THEN Good
     ELSE Bad(IF e.out \in {"panic", "loop"} THEN "load_panic" ELSE "ic_load_differs", [out |-> e.out])

TrNext == TrKey \/ TrEdit \/ TrIcLoad \/ TrFinds \/ TrAlt \/ TrReopt \/ TrFound \/ TrIdent \/ TrFload \/ TrCore \/ TrCase \/ TrSkip \/ TrLoad \/ TrLoad2 \/ TrOpt \/ TrMatch \/ TrTri \/ TrValidate \/ TrSer \/ TrReload

TrSpec == TrInit /\ [][TrNext]_tvars

(* the whole trace was consumed: one state per line plus the initial state *)
TraceAccepted ==
  LET d == TLCGet("stats").diameter IN
  IF d - 1 = Len(Rec) THEN TRUE
  ELSE Print(<<"TRACE NOT CONSUMED: stopped before line", d, "of", Len(Rec),
               IF d <= Len(Rec) THEN Rec[d].ev ELSE "-">>, FALSE)
=============================================================================
