------------------------------- MODULE TauKnown -----------------------------
(***************************************************************************)
(* Named deviations (DESIGN.md 4.2/4.3): syntactic triggers, evaluated on  *)
(* a case, of the genuine defects recorded in /verif/known_findings.json.  *)
(* A judged event is attributed to a known finding only if the finding's   *)
(* trigger holds for the case AND the judging clause is the one the        *)
(* finding lists; anything else is a violation.                            *)
(***************************************************************************)
EXTENDS Naturals, Sequences, FiniteSets, TauBase

Devs(c) == {}
=============================================================================
