------------------------------- MODULE TauKnown -----------------------------
(***************************************************************************)
(* Named deviations (DESIGN.md 4.2/4.3): syntactic triggers, evaluated on  *)
(* a case, of the genuine defects recorded in /verif/known_findings.json.  *)
(* A judged event is attributed to a known finding only if the finding's   *)
(* trigger holds for the case AND the judging clause is one the finding    *)
(* lists; anything else is a violation.                                    *)
(***************************************************************************)
EXTENDS Naturals, Sequences, FiniteSets, TauBase, TauLang

(* how parser.rs:1382-1550 groups the members of a list on one key *)
(* m: the key modifier; under str() numbers and booleans are exact strings *)
BatchClassM(v, m) ==
  IF v.t = "pat"
  THEN IF v.k = "regex" THEN <<"re", v.ic>>
       ELSE IF v.k = "any" \/ (v.k = "exact" /\ v.a = <<>>) THEN <<"solo">>
       ELSE <<"aho", v.ic>>
  ELSE IF m = "str" /\ v.t \in {"num", "bool"} THEN <<"aho", FALSE>>
  ELSE <<"solo">>
BatchClass(v) == BatchClassM(v, "none")

Classes(vs, m) == {BatchClassM(vs[i], m) : i \in DOMAIN vs} \ {<<"solo">>}
InClass(vs, m, c) == {i \in DOMAIN vs : BatchClassM(vs[i], m) = c}

(* some batch holds two or more members *)
HasBatch(vs, m) == \E c \in Classes(vs, m) : Cardinality(InClass(vs, m, c)) >= 2
(* ... and it is not the whole list: the group has further entries *)
HasPartialBatch(vs, m) ==
  \E c \in Classes(vs, m) : Cardinality(InClass(vs, m, c)) >= 2 /\ Cardinality(InClass(vs, m, c)) < Len(vs)

RECURSIVE EntriesOf(_), EntriesOfList(_)
(* all entries of a mapping body, including those of nested mappings *)
EntriesOf(es) ==
  IF es = <<>> THEN <<>>
  ELSE LET h == Head(es)
           inner == IF h.v.t = "map" THEN EntriesOf(h.v.es)
                    ELSE IF h.v.t = "list"
                         THEN EntriesOfList(h.v.vs)
                         ELSE <<>>
       IN <<h>> \o inner \o EntriesOf(Tail(es))
EntriesOfList(vs) == IF vs = <<>> THEN <<>>
                     ELSE (IF Head(vs).t = "map" THEN EntriesOf(Head(vs).es) ELSE <<>>) \o EntriesOfList(Tail(vs))

RECURSIVE BodiesEntries(_)
BodyEntries(b) == IF b.t = "map" THEN EntriesOf(b.es)
                  ELSE IF b.t = "seq" THEN BodiesEntries(b.ms) ELSE <<>>
BodiesEntries(ms) == IF ms = <<>> THEN <<>> ELSE EntriesOf(Head(ms).es) \o BodiesEntries(Tail(ms))

RECURSIVE AllEntries(_)
AllEntries(ids) == IF ids = <<>> THEN <<>> ELSE BodyEntries(Head(ids)[2]) \o AllEntries(Tail(ids))

RECURSIVE QuantNames(_)
(* identifiers named under all()/of() in the condition *)
QuantNames(c) ==
  CASE c.t \in {"all", "of"} -> {c.n}
    [] c.t \in {"and", "or"} -> QuantNames(c.l) \cup QuantNames(c.r)
    [] c.t \in {"not", "par"} -> QuantNames(c.e)
    [] OTHER -> {}

BodyOf(ids, n) == LET idx == {i \in DOMAIN ids : ids[i][1] = n} IN
                  IF idx = {} THEN [t |-> "none"] ELSE ids[MinOf(idx)][2]

(* KF quant_partial_batch: all(k)/of(k, n) on a list of which two or more members are batched *)
(* into one Aho-Corasick / RegexSet search while other members remain: the quantifier counts  *)
(* the batch as ONE member.                                                                   *)
DevQuantPartialBatch(src) ==
  \E i \in DOMAIN AllEntries(src.ids) :
     LET en == AllEntries(src.ids)[i] IN
     en.m \in {"all", "of"} /\ en.v.t = "list" /\ HasPartialBatch(en.v.vs, "none")

(* KF ident_list_batch: all(X)/of(X, n) in the condition over an identifier that is a mapping  *)
(* with a single plain key whose list holds a batch: the members are not counted one by one.  *)
DevIdentListBatch(src) ==
  src.cond.t # "text" /\
  \E n \in QuantNames(src.cond) :
     LET b == BodyOf(src.ids, n) IN
     b.t = "map" /\ Len(b.es) = 1 /\ b.es[1].v.t = "list" /\ HasBatch(b.es[1].v.vs, b.es[1].m)

(* KF ident_list_members: the same identifier shape with ANY list of two or more members: the  *)
(* identifier's expression is the list's or-group and the quantifier counts its members.      *)
DevIdentListMembers(src) ==
  src.cond.t # "text" /\
  \E n \in QuantNames(src.cond) :
     LET b == BodyOf(src.ids, n) IN
     b.t = "map" /\ Len(b.es) = 1 /\ b.es[1].v.t = "list" /\ Len(b.es[1].v.vs) >= 2
     /\ b.es[1].m \notin {"not", "all", "of"}

(* ----- negation contexts: the only places where false and missing are told apart ----- *)
RECURSIVE CondHasNot(_), CondHasOf0(_), CondDoubleNot(_)
CondHasNot(c) ==
  CASE c.t = "not" -> TRUE
    [] c.t \in {"and", "or"} -> CondHasNot(c.l) \/ CondHasNot(c.r)
    [] c.t = "par" -> CondHasNot(c.e)
    [] OTHER -> FALSE
CondHasOf0(c) ==
  CASE c.t = "of" -> c.c = 0
    [] c.t \in {"and", "or"} -> CondHasOf0(c.l) \/ CondHasOf0(c.r)
    [] c.t \in {"not", "par"} -> CondHasOf0(c.e)
    [] OTHER -> FALSE
RECURSIVE Unpar(_)
Unpar(c) == IF c.t = "par" THEN Unpar(c.e) ELSE c
SingleNotBody(b) == b.t = "map" /\ Len(b.es) = 1 /\ b.es[1].m = "not"
CondDoubleNot(c) ==
  CASE c.t = "not" -> LET x == Unpar(c.e) IN x.t = "not" \/ CondDoubleNot(x)
    [] c.t \in {"and", "or"} -> CondDoubleNot(c.l) \/ CondDoubleNot(c.r)
    [] c.t = "par" -> CondDoubleNot(c.e)
    [] OTHER -> FALSE
RECURSIVE NotOverIds(_)
NotOverIds(c) ==    \* identifiers that appear directly under a `not`
  CASE c.t = "not" -> (LET x == Unpar(c.e) IN IF x.t = "id" THEN {x.n} ELSE {}) \cup NotOverIds(c.e)
    [] c.t \in {"and", "or"} -> NotOverIds(c.l) \cup NotOverIds(c.r)
    [] c.t = "par" -> NotOverIds(c.e)
    [] OTHER -> {}

EntryNeg(en) == en.m = "not" \/ (en.m = "of" /\ en.c = 0)
HasNegCtx(src) ==
  \/ CondHasNot(src.cond) \/ CondHasOf0(src.cond)
  \/ \E i \in DOMAIN AllEntries(src.ids) : EntryNeg(AllEntries(src.ids)[i])

(* KF shake_double_negation: shake rewrites not not X to X; with X missing the two differ.   *)
DevDoubleNot(src) ==
  \/ CondDoubleNot(src.cond)
  \/ \E n \in NotOverIds(src.cond) : SingleNotBody(BodyOf(src.ids, n))

(* KF shake_flatten_seq: all(X)/of(X, n) over a sequence identifier with ONE mapping: shake   *)
(* unwraps the one-entry group and the quantifier then counts that mapping's own operands.    *)
DevFlattenSeq(src) ==
  \E n \in QuantNames(src.cond) :
     LET b == BodyOf(src.ids, n) IN b.t = "seq" /\ Len(b.ms) = 1

(* KF shake_merge_batch: all(X)/of(X, n) over a sequence identifier two or more of whose       *)
(* mappings are single plain string predicates on the same field: shake merges them into one   *)
(* batch, which is then counted as one entry when other entries remain.                       *)
SingleStr(m) == Len(m.es) = 1 /\ m.es[1].m \in {"none", "str"} /\ m.es[1].v.t = "pat"
SeqBatchKey(m) == <<m.es[1].f, m.es[1].m, BatchClass(m.es[1].v)>>
SingleNested(m) == Len(m.es) = 1 /\ m.es[1].m = "none" /\ m.es[1].v.t = "map"
DevMergeBatch(src) ==
  \E n \in QuantNames(src.cond) :
     LET b == BodyOf(src.ids, n) IN
     \/ b.t = "seq" /\ \E i, j \in DOMAIN b.ms :
           i < j /\ SingleStr(b.ms[i]) /\ SingleStr(b.ms[j])
           /\ BatchClass(b.ms[i].es[1].v) # <<"solo">>
           /\ SeqBatchKey(b.ms[i]) = SeqBatchKey(b.ms[j])
     (* ... or nested blocks on one field: shake merges them into ONE block (an or of the blocks) *)
     \/ b.t = "seq" /\ \E i, j \in DOMAIN b.ms :
           i < j /\ SingleNested(b.ms[i]) /\ SingleNested(b.ms[j]) /\ b.ms[i].es[1].f = b.ms[j].es[1].f
     \/ b.t = "map" /\ Len(b.es) = 1 /\ b.es[1].v.t = "list"
        /\ Cardinality({i \in DOMAIN b.es[1].v.vs : b.es[1].v.vs[i].t = "map"}) >= 2

(* KF quant_batch_array: a quantified batch evaluated on an array field (per element).         *)
RECURSIVE HasMultiArray(_)
HasMultiArray(v) ==
  CASE v.t = "A" -> Len(v.vs) >= 2 \/ \E i \in DOMAIN v.vs : HasMultiArray(v.vs[i])
    [] v.t = "O" -> \E i \in DOMAIN v.kv : HasMultiArray(v.kv[i][2])
    [] OTHER -> FALSE
DevQuantBatchArray(src, doc) ==
  HasMultiArray(doc) /\
  \/ \E i \in DOMAIN AllEntries(src.ids) :
        LET en == AllEntries(src.ids)[i] IN
        en.m \in {"all", "of"} /\ en.v.t = "list" /\ HasBatch(en.v.vs, "none")
  \/ DevIdentListBatch(src)

(* key_whitespace: parse_mapping tokenises a key and joins the identifier tokens with ONE space, *)
(* so a field name with any other whitespace (two spaces, a tab, leading / trailing blanks) is   *)
(* looked up under a different name than the rule writes                                        *)
IsWsCp(c) == c = 32 \/ (c >= 9 /\ c <= 13)
HasWsRun(f) == \E i \in DOMAIN f : IsWsCp(f[i]) /\ (f[i] # 32 \/ i = 1 \/ i = Len(f) \/ IsWsCp(f[i + 1]))
DevKeyWs(src) == \E i \in DOMAIN AllEntries(src.ids) : HasWsRun(AllEntries(src.ids)[i].f)

(* d: 1-based index of the judged document, 0 when the judgement is not about a document *)
(* a condition given as text is judged on its parse (cached in the case as `ast` by TauRule);   *)
(* a text that does not parse has no triggers                                                   *)
DevSrcOk(c) == "src" \in DOMAIN c /\ "ids" \in DOMAIN c.src
               /\ (c.src.cond.t = "text" => ("ast" \in DOMAIN c /\ c.ast.t # "err"))
DevSrc(c) == IF c.src.cond.t = "text" THEN [cond |-> c.ast, ids |-> c.src.ids] ELSE c.src
Devs(c, d) ==
  IF ~DevSrcOk(c) THEN {}
  ELSE LET src == DevSrc(c)
           indefinite == d \in DOMAIN c.docs /\ ~Definite(src, c.docs[d]) IN
       (IF DevQuantPartialBatch(src) THEN {"quant_partial_batch"} ELSE {})
       \cup (IF DevIdentListBatch(src) THEN {"ident_list_batch"} ELSE {})
       \cup (IF DevIdentListMembers(src) THEN {"ident_list_members"} ELSE {})
       \cup (IF d \in DOMAIN c.docs /\ DevQuantBatchArray(src, c.docs[d]) THEN {"quant_batch_array"} ELSE {})
       \cup (IF DevFlattenSeq(src) THEN {"shake_flatten_seq"} ELSE {})
       \cup (IF DevMergeBatch(src) THEN {"shake_merge_batch"} ELSE {})
       \cup (IF HasNegCtx(src) /\ indefinite THEN {"opt_reorder"} ELSE {})
       \cup (IF DevDoubleNot(src) /\ indefinite THEN {"shake_double_negation"} ELSE {})
       \cup (IF DevKeyWs(src) THEN {"key_whitespace"} ELSE {})
=============================================================================
