------------------------------- MODULE TauCond ------------------------------
(***************************************************************************)
(* The condition language.                                                 *)
(*                                                                         *)
(* Engine layer                                                            *)
(*   Tokenise(text)   tokeniser.rs: the scanner loop, one case per match   *)
(*                    arm, with its look-ahead keywords ("and " includes   *)
(*                    the trailing space, "int(" the parenthesis)          *)
(*   Pratt(tokens)    parser.rs:180-742: parse_expr / parse_led / parse_nud*)
(*                    with the binding-power table and the parenthesis     *)
(*                    collection by depth counting                         *)
(* Language layer                                                          *)
(*   RefParse(tokens) the fixed grammar by precedence climbing:            *)
(*                      and < or < comparison < not, left associative,     *)
(*                      parentheses override                               *)
(*   KindOk           operands of and/or/not are predicates, comparison    *)
(*                    operands are casts/constants of matching type        *)
(* Both produce the condition AST of TauLang (with "par" nodes removed).   *)
(***************************************************************************)
EXTENDS Naturals, Sequences, FiniteSets, TauBase, TauNum

(* ----- characters ----- *)
IsLower(c) == c >= 97 /\ c <= 122
IsUpper(c) == c >= 65 /\ c <= 90
IsAsciiLetter(c) == IsLower(c) \/ IsUpper(c)
IsDigit(c) == c >= 48 /\ c <= 57
IsSpace(c) == c = 32 \/ (c >= 9 /\ c <= 13)
(* char::is_alphanumeric / is_numeric for the code points used in checked universes:    *)
(* ASCII letters and digits, Latin-1 letters (192..255 except 215, 247), and code points *)
(* >= 0x4E00 that are CJK letters.  Emoji and punctuation are neither.                   *)
IsAlnum(c) == IsAsciiLetter(c) \/ IsDigit(c)
              \/ (c >= 192 /\ c <= 255 /\ c # 215 /\ c # 247) \/ (c >= 19968 /\ c <= 40959)
IsNumericCh(c) == IsDigit(c)
IdentCh(c) == IsAlnum(c) \/ c \in {95, 46, 35, 91, 93}        \* _ . # [ ]

Kw(s) == s     \* keywords as code point sequences
KW_FLT == <<102,108,116,40>>             \* "flt("
KW_INT == <<105,110,116,40>>             \* "int("
KW_STRING == <<115,116,114,105,110,103,40>>  \* "string("
KW_STR == <<115,116,114,40>>             \* "str("
KW_AND == <<97,110,100,32>>              \* "and "
KW_OR  == <<111,114,32>>                 \* "or "
KW_NOT == <<110,111,116,32>>             \* "not "
KW_NOTP == <<110,111,116,40>>            \* "not("
KW_ALL == <<97,108,108,40>>              \* "all("
KW_OF  == <<111,102,40>>                 \* "of("

Ahead(s, p, kw) == p + Len(kw) - 1 <= Len(s) /\ SubSeq(s, p, p + Len(kw) - 1) = kw

(* tokens *)
TId(s) == [k |-> "id", s |-> s]
TInt(d) == [k |-> "int", d |-> d]
TFlt(d, fr) == [k |-> "flt", d |-> d, fr |-> fr]
TOp(o) == [k |-> "op", o |-> o]            \* and or eq gt ge lt le
TMod(m) == [k |-> "mod", m |-> m]          \* flt int str not   (followed by "(")
TNot == [k |-> "not"]                      \* the prefix operator "not "
TMatch(m) == [k |-> "match", m |-> m]      \* all of
TLp == [k |-> "lp"]
TRp == [k |-> "rp"]
TComma == [k |-> "comma"]

RECURSIVE SpanWhile(_, _, _)
(* end (exclusive) of the longest run from p whose characters satisfy the class *)
SpanWhile(s, p, cls) ==
  IF p <= Len(s) /\ (IF cls = "num" THEN (IsNumericCh(s[p]) \/ s[p] = 46) ELSE IdentCh(s[p]))
  THEN SpanWhile(s, p + 1, cls) ELSE p

(* number text -> token or error: Rust's parse of i64 / f64 on a run of digits and dots *)
NumTok(t) ==
  LET dots == {i \in DOMAIN t : t[i] = 46} IN
  IF t = <<>> THEN [k |-> "err"]
  ELSE IF dots = {}
       THEN IF FitsI64(MkInt(FALSE, ToDigits(t))) THEN TInt(ToDigits(t)) ELSE [k |-> "err"]
  ELSE IF Cardinality(dots) > 1 \/ Len(t) = 1 THEN [k |-> "err"]
  ELSE LET p == CHOOSE i \in dots : TRUE IN
       TFlt(ToDigits(SubSeq(t, 1, p - 1)), ToDigits(SubSeq(t, p + 1, Len(t))))

(* One iteration of the scanner loop at position p (1-based, p <= Len(s)):                     *)
(*   [st |-> "tok", np, tok]  a token was produced, continue at np                            *)
(*   [st |-> "skip", np]      whitespace                                                      *)
(*   [st |-> "err"]           the tokeniser returns an error                                  *)
StTok(np, tok) == [st |-> "tok", np |-> np, tok |-> tok]
StSkip(np) == [st |-> "skip", np |-> np, tok |-> TLp]
StErr == [st |-> "err", np |-> 0, tok |-> TLp]
Step(s, p) ==
  LET c == s[p] IN
    IF c = 46 \/ c = 45 \/ IsDigit(c)
    THEN LET q == SpanWhile(s, p, "num") tok == NumTok(SubSeq(s, p, q - 1)) IN
         IF tok.k = "err" THEN StErr ELSE StTok(q, tok)
    ELSE IF IsAsciiLetter(c) \/ c = 35
    THEN IF Ahead(s, p, KW_FLT) THEN StTok(p + 3, TMod("flt"))
         ELSE IF Ahead(s, p, KW_INT) THEN StTok(p + 3, TMod("int"))
         ELSE IF Ahead(s, p, KW_STRING) THEN StTok(p + 6, TMod("str"))
         ELSE IF Ahead(s, p, KW_STR) THEN StTok(p + 3, TMod("str"))
         ELSE IF Ahead(s, p, KW_AND) THEN StTok(p + 3, TOp("and"))
         ELSE IF Ahead(s, p, KW_OR) THEN StTok(p + 2, TOp("or"))
         ELSE IF Ahead(s, p, KW_NOT) THEN StTok(p + 3, TNot)
         ELSE IF Ahead(s, p, KW_NOTP) THEN StTok(p + 3, TMod("not"))
         ELSE IF Ahead(s, p, KW_ALL) THEN StTok(p + 3, TMatch("all"))
         ELSE IF Ahead(s, p, KW_OF) THEN StTok(p + 2, TMatch("of"))
         ELSE LET q == SpanWhile(s, p, "id") IN StTok(q, TId(SubSeq(s, p, q - 1)))
    ELSE IF IsSpace(c) THEN StSkip(p + 1)
    ELSE IF c = 61 THEN IF p + 1 <= Len(s) /\ s[p + 1] = 61 THEN StTok(p + 2, TOp("eq")) ELSE StErr
    ELSE IF c = 60 THEN IF p + 1 <= Len(s) /\ s[p + 1] = 61 THEN StTok(p + 2, TOp("le"))
                        ELSE StTok(p + 1, TOp("lt"))
    ELSE IF c = 62 THEN IF p + 1 <= Len(s) /\ s[p + 1] = 61 THEN StTok(p + 2, TOp("ge"))
                        ELSE StTok(p + 1, TOp("gt"))
    ELSE IF c = 44 THEN StTok(p + 1, TComma)
    ELSE IF c = 40 THEN StTok(p + 1, TLp)
    ELSE IF c = 41 THEN StTok(p + 1, TRp)
    ELSE StErr

RECURSIVE Scan(_, _, _)
(* the scanner loop: position p, tokens so far; result [ok, toks] *)
Scan(s, p, toks) ==
  IF p > Len(s) THEN [ok |-> TRUE, toks |-> toks]
  ELSE LET r == Step(s, p) IN
       IF r.st = "err" THEN [ok |-> FALSE, toks |-> toks]
       ELSE Scan(s, r.np, IF r.st = "tok" THEN Append(toks, r.tok) ELSE toks)

Tokenise(s) == Scan(s, 1, <<>>)

-----------------------------------------------------------------------------
(* trees (TauLang condition AST) *)
NId(n) == [t |-> "id", n |-> n]
NBin(op, l, r) == IF op \in {"and", "or"} THEN [t |-> op, l |-> l, r |-> r]
                  ELSE [t |-> "cmp", op |-> op, l |-> l, r |-> r]
NNot(x) == [t |-> "not", e |-> x]
NAll(n) == [t |-> "all", n |-> n]
NOf(n, c) == [t |-> "of", n |-> n, c |-> c]
NCast(k, f) == [t |-> "cast", k |-> k, f |-> f]
NInt(d) == [t |-> "const", n |-> MkInt(FALSE, d)]
NFlt(d, fr) == [t |-> "const", n |-> MkFlt(FALSE, d, fr)]
ERR == [t |-> "err"]
IsErr(x) == x.t = "err"

CmpOps == {"eq", "gt", "ge", "lt", "le"}
Bp(tok) == IF tok.k = "op" THEN (IF tok.o \in CmpOps THEN 90 ELSE IF tok.o = "or" THEN 80 ELSE 70)
           ELSE IF tok.k = "not" THEN 95
           ELSE IF tok.k \in {"mod", "match"} THEN 60
           ELSE 0

(* ----- kinds (shared by both parsers: the checks parse_led / parse_nud make) ----- *)
IsPredNode(x) == x.t \in {"id", "and", "or", "cmp", "not", "all", "of"}
IsNumOperand(x) == x.t \in {"cast", "const"}
TypeOk(op, l, r) ==
  \/ l.t = "cast" /\ r.t = "cast" /\ l.k = r.k /\ l.k \in {"flt", "int"}
  \/ l.t = "cast" /\ r.t = "cast" /\ l.k = "str" /\ r.k = "str" /\ op = "eq"
  \/ l.t = "cast" /\ l.k = "flt" /\ r.t = "const" /\ r.n.k = "f"
  \/ r.t = "cast" /\ r.k = "flt" /\ l.t = "const" /\ l.n.k = "f"
  \/ l.t = "cast" /\ l.k = "int" /\ r.t = "const" /\ r.n.k = "i"
  \/ r.t = "cast" /\ r.k = "int" /\ l.t = "const" /\ l.n.k = "i"

(* dev: named deviations switched on.  "andor_unchecked": parse_led accepts any operands for  *)
(* and/or (the unrepaired code).                                                              *)
MkBin(op, l, r, dev) ==
  IF IsErr(l) \/ IsErr(r) THEN ERR
  ELSE IF op \in CmpOps
       THEN IF IsNumOperand(l) /\ IsNumOperand(r) /\ TypeOk(op, l, r) THEN NBin(op, l, r) ELSE ERR
  ELSE IF "andor_unchecked" \in dev \/ (IsPredNode(l) /\ IsPredNode(r)) THEN NBin(op, l, r) ELSE ERR
MkNot(x) == IF IsErr(x) THEN ERR ELSE IF IsPredNode(x) THEN NNot(x) ELSE ERR

-----------------------------------------------------------------------------
(* Engine layer: the Pratt parser.  Results are [x |-> tree | ERR, i |-> next index].         *)
R(x, i) == [x |-> x, i |-> i]

(* collect the tokens up to the matching right parenthesis by depth counting (parser.rs:351). *)
(* Returns [j |-> index after the closing parenthesis or Len+1, closed |-> BOOLEAN]           *)
RECURSIVE Collect(_, _, _)
Collect(ts, i, depth) ==
  IF i > Len(ts) THEN [j |-> i, closed |-> FALSE]
  ELSE IF ts[i].k = "lp" THEN Collect(ts, i + 1, depth + 1)
  ELSE IF ts[i].k = "rp" THEN (IF depth = 1 THEN [j |-> i, closed |-> TRUE] ELSE Collect(ts, i + 1, depth - 1))
  ELSE Collect(ts, i + 1, depth)

RECURSIVE PrattTop(_, _), PrattExpr(_, _, _, _), PrattLoop(_, _, _, _, _), PrattNud(_, _, _)

(* small decimal -> Nat for of() counts; counts above 9999 behave like 9999 *)
RECURSIVE DigValN(_)
DigValN(d) == IF d = <<>> THEN 0 ELSE DigValN(SubSeq(d, 1, Len(d) - 1)) * 10 + d[Len(d)]
CountOf(d) == IF Len(StripLead(d)) > 4 THEN 9999 ELSE DigValN(StripLead(d))

(* NUD for "mod(" ident ")" and "all(" ident ")" / "of(" ident "," int ")" *)
ModNud(ts, i, m) ==
  IF i + 2 <= Len(ts) /\ ts[i].k = "lp" /\ ts[i + 2].k = "rp"
  THEN IF ts[i + 1].k = "id" THEN R(NCast(m, ts[i + 1].s), i + 3) ELSE R(ERR, i + 3)
  ELSE R(ERR, i)
AllNud(ts, i) ==
  IF i + 2 <= Len(ts) /\ ts[i].k = "lp" /\ ts[i + 2].k = "rp"
  THEN IF ts[i + 1].k = "id" THEN R(NAll(ts[i + 1].s), i + 3) ELSE R(ERR, i + 3)
  ELSE R(ERR, i)
OfNud(ts, i) ==
  IF i + 4 <= Len(ts) /\ ts[i].k = "lp" /\ ts[i + 2].k = "comma" /\ ts[i + 3].k = "int" /\ ts[i + 4].k = "rp"
  THEN IF ts[i + 1].k = "id" THEN R(NOf(ts[i + 1].s, CountOf(ts[i + 3].d)), i + 5) ELSE R(ERR, i + 5)
  ELSE R(ERR, i)

PrattNud(ts, i, dev) ==
  IF i > Len(ts) THEN R(ERR, i)
  ELSE LET tk == ts[i] IN
    CASE tk.k = "lp" ->
           LET c == Collect(ts, i + 1, 1)
               inner == SubSeq(ts, i + 1, c.j - 1)
               sub == PrattTop(inner, dev) IN
           IF ~c.closed /\ "paren_unclosed_ok" \notin dev THEN R(ERR, c.j)
           ELSE R(sub, IF c.closed THEN c.j + 1 ELSE c.j)
      [] tk.k \in {"rp", "comma", "op"} -> R(ERR, i + 1)
      [] tk.k = "flt" -> R(NFlt(tk.d, tk.fr), i + 1)
      [] tk.k = "int" -> R(NInt(tk.d), i + 1)
      [] tk.k = "id"  -> R(NId(tk.s), i + 1)
      [] tk.k = "not" -> LET r == PrattExpr(ts, i + 1, 95, dev) IN R(MkNot(r.x), r.i)
      [] tk.k = "mod" -> ModNud(ts, i + 1, tk.m)
      [] tk.k = "match" -> IF tk.m = "all" THEN AllNud(ts, i + 1) ELSE OfNud(ts, i + 1)

PrattLoop(ts, left, i, rbp, dev) ==
  IF IsErr(left) THEN R(ERR, i)
  ELSE IF i > Len(ts) \/ rbp >= Bp(ts[i]) THEN R(left, i)
  ELSE IF ts[i].k # "op" THEN R(ERR, i + 1)                      \* parse_led on a non-operator
  ELSE LET r == PrattExpr(ts, i + 1, Bp(ts[i]), dev) IN
       PrattLoop(ts, MkBin(ts[i].o, left, r.x, dev), r.i, rbp, dev)

PrattExpr(ts, i, rbp, dev) ==
  LET n == PrattNud(ts, i, dev) IN PrattLoop(ts, n.x, n.i, rbp, dev)

PrattTop(ts, dev) ==
  LET r == PrattExpr(ts, 1, 0, dev) IN
  IF IsErr(r.x) \/ r.i <= Len(ts) THEN ERR ELSE r.x

(* Rule-level acceptance (rule.rs:127-141): parse, then is_solvable on the root *)
Pratt(ts, dev) == LET x == PrattTop(ts, dev) IN IF IsErr(x) \/ ~IsPredNode(x) THEN ERR ELSE x

-----------------------------------------------------------------------------
(* Language layer: the fixed grammar, by precedence climbing over levels                       *)
(*   L70 := L80 ("and" L80)*   L80 := L90 ("or" L90)*   L90 := L95 (cmp L95)*                   *)
(*   L95 := "not" L95 | primary                                                               *)
(*   primary := id | int | flt | "(" L70 ")" | cast | all(id) | of(id, n)                      *)
RECURSIVE RefLevel(_, _, _), RefTail(_, _, _, _), RefPrimary(_, _)

LevelOps(lv) == IF lv = 70 THEN {"and"} ELSE IF lv = 80 THEN {"or"} ELSE CmpOps
NextLevel(lv) == IF lv = 70 THEN 80 ELSE IF lv = 80 THEN 90 ELSE 95

RefPrimary(ts, i) ==
  IF i > Len(ts) THEN R(ERR, i)
  ELSE LET tk == ts[i] IN
    CASE tk.k = "lp" ->
           LET r == RefLevel(ts, i + 1, 70) IN
           IF ~IsErr(r.x) /\ r.i <= Len(ts) /\ ts[r.i].k = "rp" THEN R(r.x, r.i + 1) ELSE R(ERR, r.i)
      [] tk.k = "id"  -> R(NId(tk.s), i + 1)
      [] tk.k = "int" -> R(NInt(tk.d), i + 1)
      [] tk.k = "flt" -> R(NFlt(tk.d, tk.fr), i + 1)
      [] tk.k = "mod" -> ModNud(ts, i + 1, tk.m)
      [] tk.k = "match" -> IF tk.m = "all" THEN AllNud(ts, i + 1) ELSE OfNud(ts, i + 1)
      [] OTHER -> R(ERR, i + 1)

RefLevel(ts, i, lv) ==
  IF lv = 95
  THEN IF i <= Len(ts) /\ ts[i].k = "not"
       THEN LET r == RefLevel(ts, i + 1, 95) IN R(MkNot(r.x), r.i)
       ELSE RefPrimary(ts, i)
  ELSE LET first == RefLevel(ts, i, NextLevel(lv)) IN RefTail(ts, first.x, first.i, lv)

RefTail(ts, left, i, lv) ==
  IF IsErr(left) THEN R(ERR, i)
  ELSE IF i <= Len(ts) /\ ts[i].k = "op" /\ ts[i].o \in LevelOps(lv)
       THEN LET r == RefLevel(ts, i + 1, NextLevel(lv)) IN
            RefTail(ts, MkBin(ts[i].o, left, r.x, {}), r.i, lv)
       ELSE R(left, i)

RefParse(ts) ==
  LET r == RefLevel(ts, 1, 70) IN
  IF IsErr(r.x) \/ r.i <= Len(ts) \/ ~IsPredNode(r.x) THEN ERR ELSE r.x

-----------------------------------------------------------------------------
(* identifiers a condition tree refers to *)
RECURSIVE RefIds(_)
RefIds(c) ==
  CASE c.t = "id" -> {c.n}
    [] c.t \in {"all", "of"} -> {c.n}
    [] c.t \in {"and", "or"} -> RefIds(c.l) \cup RefIds(c.r)
    [] c.t = "not" -> RefIds(c.e)
    [] OTHER -> {}

(* the load-time identifier scan (rule.rs:104-125): every Identifier token must name an         *)
(* identifier, except the one two tokens after a modifier                                       *)
ScanOk(ts, names) ==
  \A i \in DOMAIN ts :
     ts[i].k = "id" => (ts[i].s \in names \/ (i > 2 /\ ts[i - 2].k = "mod"))

(* text -> AST or ERR, as the rule loader accepts it *)
CondOfText(s, names, dev) ==
  LET tk == Tokenise(s) IN
  IF ~tk.ok THEN ERR
  ELSE IF ~ScanOk(tk.toks, names) THEN ERR
  ELSE Pratt(tk.toks, dev)

RefCondOfText(s, names) ==
  LET tk == Tokenise(s) IN
  IF ~tk.ok THEN ERR
  ELSE LET x == RefParse(tk.toks) IN
       IF IsErr(x) \/ ~(RefIds(x) \subseteq names) THEN ERR ELSE x
=============================================================================
