----------------------------- MODULE TauKeyText -----------------------------
(***************************************************************************)
(* The textual layer of mapping KEYS (parser.rs parse_mapping, lines       *)
(* 806-880): what a key text such as `int(a)`, `of(Image Path, 2)` or      *)
(* `a.b[1]` is taken to mean.                                              *)
(*                                                                         *)
(* ENGINE LAYER  KeyEng(s, seq): the code as it is - the key text goes     *)
(* through the CONDITION tokeniser (TauCond!Tokenise), runs of identifier  *)
(* tokens are re-joined with ONE space (KJoin), the result goes through    *)
(* the Pratt parser (TauCond!PrattTop) and the root of the parse is        *)
(* classified: identifier -> plain field, cast -> int/flt/str/not,         *)
(* all()/of() -> quantifier (only over a sequence value); anything else    *)
(* is a load error.                                                        *)
(*                                                                         *)
(* LANGUAGE LAYER  KeyAdm(s, seq): the documented key forms                *)
(*     NAME | int(NAME) | flt(NAME) | str(NAME) | not(NAME) | all(NAME) |  *)
(*     of(NAME, N)                                                         *)
(* where NAME is one or more words (a letter, then letters, digits, _ . #  *)
(* and square brackets) separated                                         *)
(* by white space, none of them a bare and / or / not.  For these the      *)
(* meaning is PINNED: the modifier, the count, and the field name exactly  *)
(* AS WRITTEN (inside parentheses: without the padding next to the         *)
(* parentheses / the comma).  Every other text is left open (it may load   *)
(* with any meaning or be rejected) - only totality is demanded (C04).     *)
(*                                                                         *)
(* Named deviation "key_whitespace" (KF-key-whitespace): the engine        *)
(* re-joins the words of a NAME with single blanks, so a name written with *)
(* any other white space is looked up under a name the rule does not write.*)
(***************************************************************************)
EXTENDS TauCond

KErr == [st |-> "err", m |-> "", n |-> 0, f |-> <<>>]
KOk(m, n, f) == [st |-> "ok", m |-> m, n |-> n, f |-> f]

-----------------------------------------------------------------------------
(* engine layer *)

RECURSIVE KJoin(_, _, _, _)
(* parser.rs:814-831: consecutive identifier tokens become one identifier, joined by " " *)
KJoin(ts, i, pend, has) ==
  IF i > Len(ts) THEN (IF has THEN <<TId(pend)>> ELSE <<>>)
  ELSE IF ts[i].k = "id"
       THEN KJoin(ts, i + 1, IF has THEN pend \o <<32>> \o ts[i].s ELSE ts[i].s, TRUE)
  ELSE (IF has THEN <<TId(pend)>> ELSE <<>>) \o <<ts[i]>> \o KJoin(ts, i + 1, <<>>, FALSE)

KeyEng(s, seq) ==
  LET tk == Tokenise(s) IN
  IF ~tk.ok THEN KErr
  ELSE LET x == PrattTop(KJoin(tk.toks, 1, <<>>, FALSE), {}) IN
       IF IsErr(x) THEN KErr
       ELSE IF x.t = "id" THEN KOk("", 0, x.n)
       ELSE IF x.t = "cast" THEN KOk(x.k, 0, x.f)
       ELSE IF x.t = "all" THEN (IF seq THEN KOk("all", 0, x.n) ELSE KErr)
       ELSE IF x.t = "of" THEN (IF seq THEN KOk("of", x.c, x.n) ELSE KErr)
       ELSE KErr

-----------------------------------------------------------------------------
(* language layer *)

RECURSIVE KTrimL(_), KTrimR(_)
KTrimL(s) == IF s # <<>> /\ IsSpace(s[1]) THEN KTrimL(Tail(s)) ELSE s
KTrimR(s) == IF s # <<>> /\ IsSpace(s[Len(s)]) THEN KTrimR(SubSeq(s, 1, Len(s) - 1)) ELSE s
KTrim(s) == KTrimR(KTrimL(s))

(* the words of a text: maximal runs of non-blank characters *)
RECURSIVE KWords(_, _, _)
KWords(s, i, w) ==
  IF i > Len(s) THEN (IF w = <<>> THEN <<>> ELSE <<w>>)
  ELSE IF IsSpace(s[i]) THEN (IF w = <<>> THEN <<>> ELSE <<w>>) \o KWords(s, i + 1, <<>>)
  ELSE KWords(s, i + 1, Append(w, s[i]))

RECURSIVE KJoinWords(_)
KJoinWords(ws) == IF ws = <<>> THEN <<>> ELSE IF Len(ws) = 1 THEN ws[1]
                  ELSE ws[1] \o <<32>> \o KJoinWords(Tail(ws))
(* the name the engine makes of a written name: words joined by single blanks *)
KCollapse(f) == KJoinWords(KWords(f, 1, <<>>))

KReserved == {<<97,110,100>>, <<111,114>>, <<110,111,116>>}      \* and or not
KWordOk(w) == /\ w # <<>> /\ IsAsciiLetter(w[1])
              /\ \A i \in DOMAIN w : IdentCh(w[i])
              /\ w \notin KReserved
(* a documented NAME: words of identifier characters, each starting with a letter *)
KIsName(t) == LET ws == KWords(t, 1, <<>>) IN ws # <<>> /\ \A i \in DOMAIN ws : KWordOk(ws[i])

KStarts(t, kw) == Len(t) > Len(kw) /\ SubSeq(t, 1, Len(kw)) = kw /\ t[Len(t)] = 41
KInside(t, kw) == SubSeq(t, Len(kw) + 1, Len(t) - 1)
KCommas(s) == {i \in DOMAIN s : s[i] = 44}
KAllDigits(d) == d # <<>> /\ \A i \in DOMAIN d : IsDigit(d[i])

KMods == << <<KW_INT, "int">>, <<KW_FLT, "flt">>, <<KW_STR, "str">>, <<KW_NOTP, "not">>, <<KW_ALL, "all">> >>

(* [pinned |-> BOOLEAN, want |-> outcome] *)
KeyAdm(s, seq) ==
  LET t == KTrim(s)
      open == [pinned |-> FALSE, want |-> KErr]
      pin(x) == [pinned |-> TRUE, want |-> x]
      modHits == {i \in DOMAIN KMods : KStarts(t, KMods[i][1]) /\ KIsName(KInside(t, KMods[i][1]))} IN
  IF KIsName(s) THEN pin(KOk("", 0, s))                       \* the name as written, blanks and all
  ELSE IF modHits # {}
       THEN LET i == CHOOSE j \in modHits : TRUE
                m == KMods[i][2] f == KTrim(KInside(t, KMods[i][1])) IN
            IF m = "all" /\ ~seq THEN pin(KErr) ELSE pin(KOk(m, 0, f))
  ELSE IF KStarts(t, KW_OF) /\ Cardinality(KCommas(KInside(t, KW_OF))) = 1
       THEN LET ins == KInside(t, KW_OF)
                c == CHOOSE j \in KCommas(ins) : TRUE
                f == SubSeq(ins, 1, c - 1)
                d == KTrim(SubSeq(ins, c + 1, Len(ins))) IN
            IF KIsName(f) /\ KAllDigits(d) /\ Len(d) <= 4
            THEN (IF seq THEN pin(KOk("of", DigValN(ToDigits(d)), KTrim(f))) ELSE pin(KErr))
            ELSE open
  ELSE open

(* the pinned meaning as the engine delivers it under the named deviation *)
KCollapsed(x) == IF x.st = "ok" THEN [x EXCEPT !.f = KCollapse(@)] ELSE x
KHasWsRun(f) == KCollapse(f) # f

(* "asks only for keys written in the rule": split the key text at blanks, parentheses and commas; *)
(* the words of the field the engine asks for are a contiguous stretch of those runs - each word   *)
(* is a whole run, exactly as written (no run is shortened, re-spelled or put together)            *)
KDelim(c) == IsSpace(c) \/ c \in {40, 41, 44}
RECURSIVE KRuns(_, _, _)
KRuns(s, i, w) ==
  IF i > Len(s) THEN (IF w = <<>> THEN <<>> ELSE <<w>>)
  ELSE IF KDelim(s[i]) THEN (IF w = <<>> THEN <<>> ELSE <<w>>) \o KRuns(s, i + 1, <<>>)
  ELSE KRuns(s, i + 1, Append(w, s[i]))
KContig(a, b) == \E i \in 0..(Len(b) - Len(a)) : SubSeq(b, i + 1, i + Len(a)) = a
KWritten(f, s) == LET fw == KWords(f, 1, <<>>) IN fw # <<>> /\ KContig(fw, KRuns(s, 1, <<>>))
=============================================================================
