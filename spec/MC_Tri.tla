------------------------------- MODULE MC_Tri --------------------------------
(***************************************************************************)
(* C06: exhaustive model of the three-valued connectives.                  *)
(* Universe: every FORM in which the rule language combines operand        *)
(* results (binary chains, mapping group, sequence group, not, all()/of()  *)
(* over a sequence / mapping identifier, plain / all() / of() key lists,   *)
(* batched and mixed) x arity 1..MaxK x every vector in {T,F,M}^k (key     *)
(* lists: {T,F}^k and M^k, the only vectors one field can produce) x       *)
(* thresholds 0..k+1.                                                      *)
(*                                                                         *)
(* Checked here (design level):                                            *)
(*   EngInAdm  - the solver's loop (TauTri engine layer) yields a result   *)
(*               in the admissible set of the truth tables                 *)
(*   LangIsAdm - the language layer evaluated on the constructed rule and  *)
(*               document yields exactly the admissible set (the case      *)
(*               realises the vector)                                      *)
(*   Lifted    - the closed-form set-lifted operators equal their          *)
(*               definition by explicit product                            *)
(* Emitted: one REPLAY line per case for the harness (spec -> impl).       *)
(***************************************************************************)
EXTENDS TauGen, TLC, Json

CONSTANTS EmitAlts,   \* TRUE: every commutative case carries its reversed writing as an alternative (C17)
          MaxK,
          Dev      \* named deviations of the engine layer that are switched on (DESIGN.md 4.2)

VARIABLES form, k, rs, n, pc
vars == <<form, k, rs, n, pc>>

CondForms  == {"and_chain", "or_chain", "map_group", "seq_group", "not1",
               "all_seq", "of_seq", "all_map", "of_map", "mx_not", "nest_and",
               "nall_seq", "nof_seq", "nall_map", "nof_map",       \* a quantifier under `not`
               "seq_same", "or_same", "and_same", "of_same",       \* every operand on ONE field
               "not_cmp"}                                          \* a negated ordering comparison
KeyForms   == {"klist", "kall", "kof", "klist_mix", "kall_mix", "kof_mix", "knot"}
Forms == CondForms \cup KeyForms
Thresholded == {"of_seq", "of_map", "kof", "kof_mix", "nof_seq", "nof_map", "of_same"}
SameForms == {"seq_same", "or_same", "and_same", "of_same"}

X == <<120>>    \* "x"
Y == <<121>>    \* "y"

Vectors(f, kk) ==
  IF f \in KeyForms THEN [1..kk -> {"T", "F"}] \cup {[i \in 1..kk |-> "M"]}
  ELSE [1..kk -> Tri]

Init == /\ pc = "start"
        /\ form \in Forms
        /\ k \in 1..MaxK
        /\ rs \in Vectors(form, k)
        /\ n \in (IF form \in Thresholded THEN 0..(k + 1) ELSE IF form \in {"mx_not", "not_cmp"} THEN 0..2 ELSE {0})
        /\ (form = "not1" => k = 1)
        /\ (form = "not_cmp" => k <= 2 /\ Len(rs) = k /\ \A i \in 2..k : rs[i] = "T")
        /\ (form \in KeyForms => k >= 2)

Next == pc = "start" /\ pc' = "done" /\ UNCHANGED <<form, k, rs, n>>
Spec == Init /\ [][Next]_vars

-----------------------------------------------------------------------------
(* case construction *)
Atom(i) == MapB(<<Ent(Fld(i), ExactP(X))>>)
AtomIds == [i \in 1..k |-> <<IdN(i), Atom(i)>>]
AtomDoc == OV(Flat([i \in 1..k |->
              IF rs[i] = "M" THEN <<>>
              ELSE << <<Fld(i), SV(IF rs[i] = "T" THEN X ELSE Y)>> >>]))

(* *_same: all operands address the ONE field f0, which holds the number 5.  An operand that is  *)
(* true is `str(f0): '5'` (odd positions) or `f0: 5`; one that is false is `str(f0): '7'` or       *)
(* `f0: 7`; the third value stands for an un-cast text pattern `f0: 'x*'`, whose result on a      *)
(* number the language leaves open (false or missing) - so whatever one operand does with the    *)
(* field must not leak into its neighbours                                                        *)
SameEnt(i) ==
  CASE rs[i] = "T" -> (IF i % 2 = 1 THEN EntM("str", 0, Fld(0), ExactP(<<53>>)) ELSE Ent(Fld(0), NumV(MkInt(FALSE, <<5>>))))
    [] rs[i] = "F" -> (IF i % 2 = 1 THEN EntM("str", 0, Fld(0), ExactP(<<55>>)) ELSE Ent(Fld(0), NumV(MkInt(FALSE, <<7>>))))
    [] OTHER -> Ent(Fld(0), Pat("prefix", FALSE, X))
SameAtom(i) == MapB(<<SameEnt(i)>>)
SameIds == [i \in 1..k |-> <<IdN(i), SameAtom(i)>>]
SameDoc == OV(<< <<Fld(0), IV(FALSE, <<5>>)>> >>)

A == IdN(1)
Letter(i) == <<96 + i>>
Memb(i, mixed) == IF mixed /\ i % 2 = 0 THEN Rx(<<RxC(96 + i)>>, FALSE) ELSE ContainsP(Letter(i))
KeyDoc == IF rs[1] = "M" THEN OV(<<>>)
          ELSE OV(<< <<Fld(0), SV(<<122>> \o Flat([i \in 1..k |-> IF rs[i] = "T" THEN Letter(i) ELSE <<>>]))>> >>)
KeyList(mixed) == ListV([i \in 1..k |-> Memb(i, mixed)])

(* o: the order in which the operands are WRITTEN (a permutation of 1..k); C17 compares the     *)
(* identity order with the reversed one                                                        *)
IdOrd == [i \in 1..k |-> i]
RevOrd == [i \in 1..k |-> k + 1 - i]
KeyListO(mixed, o) == ListV([i \in 1..k |-> Memb(o[i], mixed)])
SrcFor(o) ==
  CASE form = "and_chain" -> Src(Chain("and", [i \in 1..k |-> Id(IdN(o[i]))]), AtomIds)
    [] form = "or_chain"  -> Src(Chain("or", [i \in 1..k |-> Id(IdN(o[i]))]), AtomIds)
    [] form = "map_group" -> Src(Id(A), << <<A, MapB([i \in 1..k |-> Ent(Fld(o[i]), ExactP(X))])>> >>)
    [] form = "seq_group" -> Src(Id(A), << <<A, SeqB([i \in 1..k |-> Atom(o[i])])>> >>)
    [] form = "seq_same"  -> Src(Id(A), << <<A, SeqB([i \in 1..k |-> SameAtom(o[i])])>> >>)
    [] form = "of_same"   -> Src(OfC(A, n), << <<A, SeqB([i \in 1..k |-> SameAtom(o[i])])>> >>)
    [] form = "or_same"   -> Src(Chain("or", [i \in 1..k |-> Id(IdN(o[i]))]), SameIds)
    [] form = "and_same"  -> Src(Chain("and", [i \in 1..k |-> Id(IdN(o[i]))]), SameIds)
    [] form = "not1"      -> Src(NotC(Id(A)), << <<A, Atom(1)>> >>)
    (* not_cmp: `not A` over `int(f0): '>1'` (n = 0), `not (int(f0) > 1)` in the condition (n = 1),   *)
    (* `not(f0): '>1'` as a key (n = 2).  The operand is true on 5, missing on an absent field and    *)
    (* FALSE on a value that is smaller (k = 2: 0) or NOT CONVERTIBLE (k = 1: the text "abc")         *)
    [] form = "not_cmp"   -> IF n = 0 THEN Src(NotC(Id(A)), << <<A, MapB(<<EntM("int", 0, Fld(0), CmpV("gt", MkInt(FALSE, <<1>>)))>>)>> >>)
                             ELSE IF n = 1 THEN Src(NotC(ParC(CmpC("gt", CastO("int", Fld(0)), ConstO(MkInt(FALSE, <<1>>))))), << <<A, Atom(1)>> >>)
                             ELSE Src(Id(A), << <<A, MapB(<<EntM("not", 0, Fld(0), CmpV("gt", MkInt(FALSE, <<1>>)))>>)>> >>)
    [] form = "all_seq"   -> Src(AllC(A), << <<A, SeqB([i \in 1..k |-> Atom(o[i])])>> >>)
    [] form = "of_seq"    -> Src(OfC(A, n), << <<A, SeqB([i \in 1..k |-> Atom(o[i])])>> >>)
    [] form = "all_map"   -> Src(AllC(A), << <<A, MapB([i \in 1..k |-> Ent(Fld(o[i]), ExactP(X))])>> >>)
    [] form = "of_map"    -> Src(OfC(A, n), << <<A, MapB([i \in 1..k |-> Ent(Fld(o[i]), ExactP(X))])>> >>)
    [] form = "nall_seq"  -> Src(NotC(AllC(A)), << <<A, SeqB([i \in 1..k |-> Atom(o[i])])>> >>)
    [] form = "nof_seq"   -> Src(NotC(OfC(A, n)), << <<A, SeqB([i \in 1..k |-> Atom(o[i])])>> >>)
    [] form = "nall_map"  -> Src(NotC(AllC(A)), << <<A, MapB([i \in 1..k |-> Ent(Fld(o[i]), ExactP(X))])>> >>)
    [] form = "nof_map"   -> Src(NotC(OfC(A, n)), << <<A, MapB([i \in 1..k |-> Ent(Fld(o[i]), ExactP(X))])>> >>)
    (* mx_not: a sequence of two-key mappings sharing field f0 (the matrix optimisation makes it a   *)
    (* table whose rows have two cells) under a negation                                            *)
    [] form = "mx_not"    -> Src(NotC(Id(A)), << <<A, SeqB([i \in 1..k |-> MapB(<<Ent(Fld(o[i]), ExactP(X)), Ent(Fld(9), ExactP(X))>>)])>> >>)
    (* nest_and: k nested blocks on one field p, one identifier each, and-ed (shake merges them);    *)
    (* the document holds p as an ARRAY of two objects                                              *)
    [] form = "nest_and"  -> Src(Chain("and", [i \in 1..k |-> Id(IdN(o[i]))]),
                                 [i \in 1..k |-> <<IdN(i), MapB(<<Ent(<<112>>, MapV(<<Ent(Letter(i), ExactP(X))>>))>>)>>])
    [] form = "klist"     -> Src(Id(A), << <<A, MapB(<<Ent(Fld(0), KeyListO(FALSE, o))>>)>> >>)
    [] form = "kall"      -> Src(Id(A), << <<A, MapB(<<EntM("all", 0, Fld(0), KeyListO(FALSE, o))>>)>> >>)
    [] form = "kof"       -> Src(Id(A), << <<A, MapB(<<EntM("of", n, Fld(0), KeyListO(FALSE, o))>>)>> >>)
    [] form = "klist_mix" -> Src(Id(A), << <<A, MapB(<<Ent(Fld(0), KeyListO(TRUE, o))>>)>> >>)
    [] form = "kall_mix"  -> Src(Id(A), << <<A, MapB(<<EntM("all", 0, Fld(0), KeyListO(TRUE, o))>>)>> >>)
    [] form = "kof_mix"   -> Src(Id(A), << <<A, MapB(<<EntM("of", n, Fld(0), KeyListO(TRUE, o))>>)>> >>)
    [] form = "knot"      -> Src(Id(A), << <<A, MapB(<<EntM("not", 0, Fld(0), KeyListO(FALSE, o))>>)>> >>)
CaseSrc == SrcFor(IdOrd)


(* the shared field f9 (written LAST in every mapping, and the last column): n = 0 matching, 1 present and different, 2 absent *)
MxDoc == OV(AtomDoc.kv \o (IF n = 2 THEN <<>> ELSE << <<Fld(9), SV(IF n = 0 THEN X ELSE Y)>> >>))
NestElem(v) == OV(Flat([i \in 1..k |-> IF v[i] = "M" THEN <<>> ELSE << <<Letter(i), SV(IF v[i] = "T" THEN X ELSE Y)>> >>]))
Rev(v) == [i \in 1..k |-> v[k + 1 - i]]
NestDoc == OV(<< <<(<<112>>), AV(<<NestElem(rs), NestElem(Rev(rs))>>)>> >>)
CmpDoc == IF rs[1] = "M" THEN OV(<<>>)
          ELSE OV(<< <<Fld(0), IF rs[1] = "T" THEN IV(FALSE, <<5>>) ELSE IF k = 2 THEN IV(FALSE, <<0>>) ELSE SV(<<97, 98, 99>>)>> >>)
CaseDoc == IF form = "not_cmp" THEN CmpDoc ELSE IF form \in KeyForms THEN KeyDoc ELSE IF form \in SameForms THEN SameDoc ELSE IF form = "mx_not" THEN MxDoc
           ELSE IF form = "nest_and" THEN NestDoc ELSE AtomDoc

-----------------------------------------------------------------------------
(* the truth tables on the abstract vector *)
Adm ==
  CASE form \in {"and_chain", "map_group"} -> {AndN(rs)}
    [] form \in {"or_chain", "seq_group", "klist", "klist_mix"} -> {OrN(rs)}
    [] form = "not1" -> {Not(rs[1])}
    [] form = "knot" -> {Not(OrN(rs))}
    [] form \in {"all_seq", "all_map", "kall", "kall_mix"} -> AllAdm(rs)
    [] form \in {"nall_seq", "nall_map"} -> NotS(AllAdm(rs))
    [] form \in {"nof_seq", "nof_map"} -> NotS(OfAdm(n, rs))
    [] form \in {"mx_not", "nest_and", "not_cmp"} \cup SameForms -> LangEval(CaseSrc, CaseDoc)
    [] form \in Thresholded -> OfAdm(n, rs)      \* no abstract vector form

(* the solver's loops on the abstract vector (engine layer of TauTri) *)
RECURSIVE FoldAnd2(_), FoldOr2(_)
FoldAnd2(v) == IF Len(v) = 1 THEN v[1] ELSE EngAnd2(FoldAnd2(SubSeq(v, 1, Len(v) - 1)), v[Len(v)])
FoldOr2(v)  == IF Len(v) = 1 THEN v[1] ELSE EngOr2(FoldOr2(SubSeq(v, 1, Len(v) - 1)), v[Len(v)])

Batched(r) ==  \* an Aho-Corasick batch over one field: all missing, or a hit count
  IF r[1] = "M" THEN "M" ELSE IF Trues(r) > 0 THEN "T" ELSE "F"

(* parser.rs:1382-1588: the contains members of a mixed list are batched into one      *)
(* Aho-Corasick search when there are two or more of them, the regex members into one  *)
(* RegexSet; a quantifier then counts BATCHES, not members ("quant_partial_batch").     *)
OddIdx  == {i \in 1..k : i % 2 = 1}
EvenIdx == {i \in 1..k : i % 2 = 0}
SubVec(I) == [j \in 1..Cardinality(I) |-> rs[CHOOSE i \in I : Cardinality({x \in I : x < i}) = j - 1]]
BatchOf(I) == IF I = {} THEN <<>>
              ELSE IF Cardinality(I) = 1 \/ "quant_partial_batch" \notin Dev THEN SubVec(I)
              ELSE <<Batched(SubVec(I))>>
MixGroup == BatchOf(OddIdx) \o BatchOf(EvenIdx)

Eng ==
  CASE form = "and_chain" -> FoldAnd2(rs)
    [] form = "or_chain"  -> FoldOr2(rs)
    [] form = "map_group" -> IF k = 1 THEN rs[1] ELSE EngAndGroup(rs)
    [] form = "seq_group" -> EngOrGroup(rs)
    [] form = "not1"      -> EngNot(rs[1])
    [] form = "all_seq"   -> EngAllGroup(rs)
    [] form = "of_seq"    -> EngOfGroup(n, rs)
    [] form = "all_map"   -> IF k = 1 THEN rs[1] ELSE EngAllGroup(rs)
    [] form = "of_map"    -> IF k = 1 THEN EngOfSingle(n, rs[1]) ELSE EngOfGroup(n, rs)
    [] form = "nall_seq"  -> EngNot(EngAllGroup(rs))
    [] form = "nof_seq"   -> EngNot(EngOfGroup(n, rs))
    [] form = "nall_map"  -> EngNot(IF k = 1 THEN rs[1] ELSE EngAllGroup(rs))
    [] form = "nof_map"   -> EngNot(IF k = 1 THEN EngOfSingle(n, rs[1]) ELSE EngOfGroup(n, rs))
    [] form = "klist"     -> Batched(rs)
    [] form = "knot"      -> EngNot(Batched(rs))
    [] form = "kall"      -> IF rs[1] = "M" THEN "M" ELSE IF Trues(rs) = k THEN "T" ELSE "F"
    [] form = "kof"       -> IF n = 0 THEN EngOfSingle(0, Batched(rs))
                             ELSE IF rs[1] = "M" THEN "M" ELSE IF Trues(rs) >= n THEN "T" ELSE "F"
    [] form = "mx_not"    -> CHOOSE r \in LangEval(CaseSrc, CaseDoc) : TRUE
    [] form = "nest_and"  -> CHOOSE r \in LangEval(CaseSrc, CaseDoc) : TRUE
    [] form \in SameForms \cup {"not_cmp"} -> CHOOSE r \in LangEval(CaseSrc, CaseDoc) : TRUE
    [] form = "klist_mix" -> EngOrGroup(MixGroup)
    [] form = "kall_mix"  -> EngAllGroup(MixGroup)
    [] form = "kof_mix"   -> EngOfGroup(n, MixGroup)

(* C17: reordering never decides whether a conjunction / disjunction / count is TRUE (design    *)
(* level, on the solver's loops and on the language layer), except under a negation or none-of  *)
Perms == {p \in [1..k -> 1..k] : \A i, j \in 1..k : i # j => p[i] # p[j]}
Permuted(p) == [i \in 1..k |-> rs[p[i]]]
Commutative == form \notin {"not1", "knot", "mx_not", "not_cmp", "nall_seq", "nof_seq", "nall_map", "nof_map"}
               /\ ~(form \in Thresholded /\ n = 0)
OrderFree ==
  \A p \in Perms :
     /\ (EngAndGroup(Permuted(p)) = "T") = (EngAndGroup(rs) = "T")
     /\ (EngOrGroup(Permuted(p)) = "T") = (EngOrGroup(rs) = "T")
     /\ (n >= 1 => (EngOfGroup(n, Permuted(p)) = "T") = (EngOfGroup(n, rs) = "T"))
     /\ (FoldAnd2(Permuted(p)) = "T") = (FoldAnd2(rs) = "T")
     /\ (FoldOr2(Permuted(p)) = "T") = (FoldOr2(rs) = "T")
LangOrderFree == Commutative => LangVerdicts(SrcFor(RevOrd), CaseDoc) = LangVerdicts(CaseSrc, CaseDoc)

(* the engine layer agrees with the truth tables, except where a NAMED deviation applies *)
KnownDeviation == "quant_partial_batch" \in Dev /\ form \in {"kall_mix", "kof_mix"} /\ k >= 3

EngInAdm  == Eng \in Adm \/ KnownDeviation
LangIsAdm == LangEval(CaseSrc, CaseDoc) = Adm

Singletons(v) == [i \in DOMAIN v |-> {v[i]}]
Lifted == LET Ss == Singletons(rs) IN
          /\ AndS(Ss) = AndSRef(Ss) /\ OrS(Ss) = OrSRef(Ss)
          /\ AllS(Ss) = AllSRef(Ss) /\ OfS(n, Ss) = OfSRef(n, Ss)

Emit == pc = "done" =>
  PrintT("REPLAY " \o ToJson([topic |-> "C06", form |-> form, oracle |-> TRUE, wt |-> TRUE,
                               src |-> CaseSrc, docs |-> <<CaseDoc>>,
                               alts |-> IF EmitAlts /\ Commutative /\ k >= 2 THEN <<SrcFor(RevOrd)>> ELSE <<>>,
                               exp |-> SetSeq(Adm), eng |-> Eng,
                               plan |-> [tri |-> TRUE, eng |-> TRUE, scope |-> "sw", sws |-> << <<>>, <<TRUE, TRUE, TRUE, TRUE>>, <<FALSE, TRUE, FALSE, TRUE>> >>]]))
=============================================================================
