-------------------------------- MODULE MC_Key -------------------------------
(***************************************************************************)
(* C04 / C02 / C16 (textual layer of mapping KEYS): every concatenation of *)
(* up to MaxLen pieces out of the characters and keywords that have a role *)
(* in key syntax.                                                          *)
(*   EngInRef        on every documented key form the engine-layer model   *)
(*                   (tokenise, re-join, Pratt, classify) delivers exactly *)
(*                   the pinned meaning - except the NAMED deviation       *)
(*                   key_whitespace (words re-joined with single blanks)   *)
(*   Written         whatever loads asks for a field whose characters are  *)
(*                   written in the key, in order (nothing is fabricated)  *)
(*   ScalarStricter  what loads over a scalar value loads over a sequence  *)
(*                   with the same meaning                                 *)
(* Emitted: one case per text; the harness runs parse_identifier on the    *)
(* one-key mappings {text: 7} and {text: [7, 8]}; TraceTau!TrKey judges.   *)
(***************************************************************************)
EXTENDS TauKeyText, TLC, Json

CONSTANTS MaxLen, Dev

VARIABLES ps
vars == <<ps>>

Pieces == << <<97>>, <<98,49>>, <<32>>, <<9>>, <<40>>, <<41>>, <<44>>, <<50>>,
             KW_INT, KW_NOTP, KW_ALL, KW_OF, KW_NOT, <<97,110,100>>, <<46,99>>, <<91,48,93>> >>

RECURSIVE Flat(_)
Flat(q) == IF q = <<>> THEN <<>> ELSE Pieces[q[1]] \o Flat(Tail(q))
s == Flat(ps)

Init == ps = <<>>
Next == Len(ps) < MaxLen /\ \E i \in DOMAIN Pieces : ps' = Append(ps, i)
Spec == Init /\ [][Next]_vars

EngInRef == \A seq \in BOOLEAN :
  LET a == KeyAdm(s, seq) e == KeyEng(s, seq) IN
  a.pinned => (e = a.want \/ ("key_whitespace" \in Dev /\ e = KCollapsed(a.want)))
Written == \A seq \in BOOLEAN : LET e == KeyEng(s, seq) IN e.st = "ok" => KWritten(e.f, s)
ScalarStricter == KeyEng(s, FALSE).st = "ok" => KeyEng(s, TRUE) = KeyEng(s, FALSE)

Form == LET a == KeyAdm(s, TRUE) IN
        IF ~a.pinned THEN "open" ELSE IF a.want.st = "err" THEN "pinned_err"
        ELSE IF KHasWsRun(a.want.f) THEN "pinned_ws"
        ELSE IF a.want.m \in {"all", "of"} THEN "pinned_q" ELSE "pinned"
Emit == PrintT("REPLAY " \o ToJson([topic |-> "key", run |-> "key", form |-> Form, text |-> s]))
=============================================================================
