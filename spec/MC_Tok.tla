------------------------------- MODULE MC_Tok --------------------------------
(***************************************************************************)
(* C04 (condition tokeniser): the scanner loop of tokeniser.rs as a state  *)
(* machine over every string of length 0..MaxLen over an alphabet of       *)
(* character CLASSES (digit . - keyword letters, another letter, space,    *)
(* tab, = < > , ( ) # [ ] _ a 2-byte letter, a 4-byte symbol, other).      *)
(*   Progress   every step consumes at least one character or terminates   *)
(*   InRange    the position never leaves 1..Len+1                         *)
(*   Terminates (liveness, under weak fairness) the scanner reaches         *)
(*              "done" or "err" on every input                             *)
(* The input is fixed in the initial state; the steps are the loop          *)
(* iterations.                                                             *)
(***************************************************************************)
EXTENDS TauCond, TLC

CONSTANTS MaxLen

VARIABLES inp, p, toks, st
vars == <<inp, p, toks, st>>

(* a n d o r t f i l s g ( space tab digit . - = < > , ) # [ _ é 😀 & *)
Alphabet == {97, 110, 100, 111, 114, 116, 102, 105, 108, 115, 103, 40, 32, 9, 49, 46, 45, 61, 60, 62, 44, 41, 35, 91, 95, 233, 128512, 38}

Inputs == UNION {[1..k -> Alphabet] : k \in 0..MaxLen}

Init == inp \in Inputs /\ p = 1 /\ toks = <<>> /\ st = "run"
StepAct ==
  /\ st = "run"
  /\ IF p > Len(inp) THEN st' = "done" /\ UNCHANGED <<inp, p, toks>>
     ELSE LET r == Step(inp, p) IN
          IF r.st = "err" THEN st' = "err" /\ UNCHANGED <<inp, p, toks>>
          ELSE /\ p' = r.np /\ st' = "run" /\ UNCHANGED inp
               /\ toks' = IF r.st = "tok" THEN Append(toks, r.tok) ELSE toks
Next == StepAct
Spec == Init /\ [][Next]_vars /\ WF_vars(Next)

InRange == p >= 1 /\ p <= Len(inp) + 1
Progress == [][st' = "run" => p' > p]_vars
Terminates == <>(st \in {"done", "err"})
(* the step machine and the recursive definition agree *)
AgreesWithScan == st \in {"done", "err"} =>
                    LET r == Tokenise(inp) IN (st = "done") = r.ok /\ (r.ok => r.toks = toks)
=============================================================================
