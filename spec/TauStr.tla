------------------------------- MODULE TauStr -------------------------------
(***************************************************************************)
(* Strings as sequences of Unicode code points and the string relations    *)
(* of the rule language (identifier.rs / solver.rs:search).                *)
(*                                                                         *)
(* Language layer: Matches(pat, h) for a structured pattern                *)
(*   pat = [k |-> "exact"|"prefix"|"suffix"|"contains"|"any"|"regex",      *)
(*          ic |-> BOOLEAN, a |-> Seq(Nat) | regex-atoms]                  *)
(* Engine layer: the batched Aho-Corasick search specified by its hit set  *)
(* {<<p, start, end>>} filtered as solver.rs:search / slow_aho do.         *)
(***************************************************************************)
EXTENDS Naturals, Sequences, FiniteSets, TauBase

Str == Seq(Nat)

(* ASCII fold: 'A'..'Z' -> 'a'..'z'; everything else unchanged *)
LowC(c) == IF c >= 65 /\ c <= 90 THEN c + 32 ELSE c
Low(s) == [i \in DOMAIN s |-> LowC(s[i])]

Sub(s, i, j) == SubSeq(s, i, j)                       \* 1-based inclusive

StrPrefix(p, s) == Len(p) <= Len(s) /\ SubSeq(s, 1, Len(p)) = p
StrSuffix(p, s) == Len(p) <= Len(s) /\ SubSeq(s, Len(s) - Len(p) + 1, Len(s)) = p
OccursAt(p, s, i) == i + Len(p) - 1 <= Len(s) /\ SubSeq(s, i, i + Len(p) - 1) = p
StrInfix(p, s) == \E i \in 1..(Len(s) + 1) : OccursAt(p, s, i)

-----------------------------------------------------------------------------
(* Mini regex sub-language.  A regex is a sequence of atoms:               *)
(*   [t |-> "c", c |-> cp]   literal character (also "\." = literal 46)     *)
(*   [t |-> "dot"]           any character except newline                   *)
(*   [t |-> "star"]          ".*"   greedy                                  *)
(*   [t |-> "lazy"]          ".*?"  lazy  (same language as star)           *)
(*   [t |-> "bol"] / [t |-> "eol"]   ^ and $ (no multi-line mode)           *)
(* Unanchored search, as regex::Regex::is_match.                            *)

(*   [t |-> "cls", n |-> "d"|"D"|"s"|"S"|"w"|"W"]   Perl class (Unicode-aware in the regex     *)
(*                           crate; decided here for ASCII and the few non-ASCII letters the    *)
(*                           generators use)                                                    *)
(*   [t |-> "set", cs |-> <<cp..>>, neg |-> BOOLEAN]   bracket class [ab] / [^ab]               *)
(* A one-character atom (c, dot, cls, set) may carry rep |-> "+" | "?" | "*".                   *)
IsDigitC(c) == c \in 48..57
IsSpaceC(c) == c \in {9, 10, 11, 12, 13, 32, 133, 160}     \* ... NEXT LINE, NO-BREAK SPACE
IsWordC(c) == c \in 48..57 \/ c \in 65..90 \/ c \in 97..122 \/ c = 95
              \/ c \in {201, 223, 233, 383, 8490}      \* E-acute, sharp s, e-acute, LONG S, KELVIN SIGN: letters
ClsOk(n, c) == CASE n = "d" -> IsDigitC(c) [] n = "D" -> ~IsDigitC(c)
                 [] n = "s" -> IsSpaceC(c) [] n = "S" -> ~IsSpaceC(c)
                 [] n = "w" -> IsWordC(c)  [] n = "W" -> ~IsWordC(c)
(* A case-insensitive REGEX folds case the Unicode way (simple case folding: k ~ K ~ KELVIN SIGN,  *)
(* s ~ S ~ LONG S, e-acute ~ E-acute); plain patterns fold ASCII only (Low).  Decided here for     *)
(* ASCII and the non-ASCII letters the generators use.                                            *)
RxFold(c) == IF c = 383 THEN 115 ELSE IF c = 8490 THEN 107 ELSE IF c = 201 THEN 233 ELSE LowC(c)
AtomOk(a, c, ic) ==
  IF a.t = "c" THEN (IF ic THEN RxFold(a.c) = RxFold(c) ELSE a.c = c)
  ELSE IF a.t = "dot" THEN c # 10
  ELSE IF a.t = "cls" THEN ClsOk(a.n, c)
  ELSE a.t = "set" /\ ((\E m \in DOMAIN a.cs : IF ic THEN RxFold(a.cs[m]) = RxFold(c) ELSE a.cs[m] = c) # a.neg)
RepOf(a) == IF "rep" \in DOMAIN a THEN a.rep ELSE "1"

RECURSIVE ReMatchAt(_, _, _, _)
(* does atoms[k..] match some prefix of s starting at position pos (1-based)? *)
ReMatchAt(atoms, k, s, pos) ==
  IF k > Len(atoms) THEN TRUE
  ELSE LET a == atoms[k] IN
    IF a.t = "bol" THEN pos = 1 /\ ReMatchAt(atoms, k + 1, s, pos)
    ELSE IF a.t = "eol" THEN pos = Len(s) + 1 /\ ReMatchAt(atoms, k + 1, s, pos)
    ELSE IF a.t \in {"star", "lazy"}
         THEN \E q \in pos..(Len(s) + 1) :
                /\ \A j \in pos..(q - 1) : s[j] # 10
                /\ ReMatchAt(atoms, k + 1, s, q)
    ELSE IF RepOf(a) = "1" THEN pos <= Len(s) /\ AtomOk(a, s[pos], FALSE) /\ ReMatchAt(atoms, k + 1, s, pos + 1)
    ELSE \E q \in (pos + (IF RepOf(a) = "+" THEN 1 ELSE 0))..(IF RepOf(a) = "?" THEN MinOf({pos + 1, Len(s) + 1}) ELSE Len(s) + 1) :
            /\ \A j \in pos..(q - 1) : AtomOk(a, s[j], FALSE)
            /\ ReMatchAt(atoms, k + 1, s, q)

RECURSIVE ReMatchAtI(_, _, _, _)
ReMatchAtI(atoms, k, s, pos) ==
  IF k > Len(atoms) THEN TRUE
  ELSE LET a == atoms[k] IN
    IF a.t = "bol" THEN pos = 1 /\ ReMatchAtI(atoms, k + 1, s, pos)
    ELSE IF a.t = "eol" THEN pos = Len(s) + 1 /\ ReMatchAtI(atoms, k + 1, s, pos)
    ELSE IF a.t \in {"star", "lazy"}
         THEN \E q \in pos..(Len(s) + 1) :
                /\ \A j \in pos..(q - 1) : s[j] # 10
                /\ ReMatchAtI(atoms, k + 1, s, q)
    ELSE IF RepOf(a) = "1" THEN pos <= Len(s) /\ AtomOk(a, s[pos], TRUE) /\ ReMatchAtI(atoms, k + 1, s, pos + 1)
    ELSE \E q \in (pos + (IF RepOf(a) = "+" THEN 1 ELSE 0))..(IF RepOf(a) = "?" THEN MinOf({pos + 1, Len(s) + 1}) ELSE Len(s) + 1) :
            /\ \A j \in pos..(q - 1) : AtomOk(a, s[j], TRUE)
            /\ ReMatchAtI(atoms, k + 1, s, q)

ReSearch(atoms, ic, s) ==
  \E p \in 1..(Len(s) + 1) :
     IF ic THEN ReMatchAtI(atoms, 1, s, p) ELSE ReMatchAt(atoms, 1, s, p)

(* the optimiser's rewrite (optimiser.rs:411): strip one leading and one    *)
(* trailing ".*"; on the atom level a leading "star" (not "lazy": ".*?"     *)
(* loses only ".*" and leaves "?", which is not a regex) and a trailing     *)
(* "star".                                                                  *)
ReStripLead(atoms)  == IF atoms # <<>> /\ atoms[1].t = "star" THEN Tail(atoms) ELSE atoms
ReStripTrail(atoms) == IF atoms # <<>> /\ atoms[Len(atoms)].t = "star"
                       THEN SubSeq(atoms, 1, Len(atoms) - 1) ELSE atoms
ReRewrite(atoms) == ReStripTrail(ReStripLead(atoms))

-----------------------------------------------------------------------------
(* Language layer: the documented string relations                          *)

Matches(pat, h) ==
  LET hh == IF pat.ic THEN Low(h) ELSE h
      aa == IF pat.k = "regex" \/ pat.k = "any" THEN <<>> ELSE IF pat.ic THEN Low(pat.a) ELSE pat.a
  IN CASE pat.k = "exact"    -> aa = hh
       [] pat.k = "prefix"   -> StrPrefix(aa, hh)
       [] pat.k = "suffix"   -> StrSuffix(aa, hh)
       [] pat.k = "contains" -> StrInfix(aa, hh)
       [] pat.k = "any"      -> TRUE
       [] pat.k = "regex"    -> ReSearch(pat.a, pat.ic, h)

-----------------------------------------------------------------------------
(* Engine layer: Aho-Corasick batch (parser.rs:1382-1491, solver.rs:1375)   *)
(* A batch is a sequence of [k, a] (MatchType, needle) sharing one ic flag. *)
(* The automaton is specified by the set of all overlapping hits.           *)

Hits(batch, ic, h) ==
  LET hh == IF ic THEN Low(h) ELSE h
      Nd(p) == IF ic THEN Low(batch[p].a) ELSE batch[p].a
  IN {<<x[1], x[2], x[2] + Len(batch[x[1]].a) - 1>> :
        x \in {y \in (DOMAIN batch) \X (1..(Len(h) + 1)) : OccursAt(Nd(y[1]), hh, y[2])}}

HitCounts(batch, hit, h) ==     \* the filter of search()/slow_aho(); start is 1-based here
  LET k == batch[hit[1]].k IN
  CASE k = "contains" -> TRUE
    [] k = "suffix"   -> hit[3] = Len(h)
    [] k = "exact"    -> hit[2] = 1 /\ hit[3] = Len(h)
    [] k = "prefix"   -> hit[2] = 1

AhoAny(batch, ic, h)   == \E hit \in Hits(batch, ic, h) : HitCounts(batch, hit, h)
AhoCount(batch, ic, h) == Cardinality({hit[1] : hit \in {x \in Hits(batch, ic, h) : HitCounts(batch, x, h)}})

=============================================================================
