------------------------------- MODULE TauType -------------------------------
(***************************************************************************)
(* The STATIC semantics of identifier bodies: which bodies load             *)
(* (parser.rs parse_identifier / parse_mapping).  A body is accepted or     *)
(* rejected by the KINDS of what is written, before any document is seen:   *)
(*                                                                         *)
(*   body      a mapping with at least one entry, or a non-empty sequence   *)
(*             of such mappings                                            *)
(*   entry     key modifier m (none, not, int, flt, str, all, of) x value   *)
(*     all(k) / of(k, n)   only on a list                                  *)
(*     int(k)   no string pattern, no float number, no nested mapping       *)
(*     str(k)   no numeric comparison pattern, no nested mapping            *)
(*     flt(k) / not(k)   no nested mapping                                  *)
(*     a nested mapping is a body itself                                    *)
(*   list      non-empty; members are booleans, numbers, patterns, nulls or *)
(*             mappings (not lists); under all()/of() the members other     *)
(*             than null must be of ONE kind (boolean / number / string /   *)
(*             mapping)                                                     *)
(*                                                                         *)
(* Member kinds as the parser's flags see them: under int() a boolean is a  *)
(* number, under str() booleans and numbers are strings.                    *)
(* A YAML number beyond i64 is read as a float (serde_yaml: as_i64 fails,   *)
(* as_f64 succeeds), so int(k): 18446744073709551615 is rejected.           *)
(***************************************************************************)
EXTENDS Naturals, Sequences, FiniteSets, TauNum

Misc == {"not", "int", "flt", "str"}       \* the modifiers parse_mapping calls `misc`
IsFloatNum(n) == n.k = "f" \/ ~FitsI64(n)

RECURSIVE MemKind(_, _), MapOk(_), EntryOk(_)
(* kind of a value under modifier m: "B" "N" "S" "M", or "E" = rejected *)
MemKind(m, v) ==
  CASE v.t = "bool" -> IF m = "int" THEN "N" ELSE IF m = "str" THEN "S" ELSE "B"
    [] v.t = "num"  -> IF IsFloatNum(v.n) /\ m = "int" THEN "E" ELSE IF m = "str" THEN "S" ELSE "N"
    [] v.t = "pat"  -> IF m = "int" THEN "E" ELSE "S"
    [] v.t = "cmp"  -> IF m = "str" THEN "E" ELSE "N"
    [] v.t = "map"  -> IF m \in Misc THEN "E" ELSE IF MapOk(v) THEN "M" ELSE "E"
    [] v.t = "null" -> "Z"                       \* accepted, and of no kind (sets no flag)
    [] OTHER -> "E"                              \* a list inside a list
MapOk(v) == v.es # <<>> /\ \A i \in DOMAIN v.es : EntryOk(v.es[i])
ListOk(m, v, uniform) ==
  LET kinds == {MemKind(m, v.vs[i]) : i \in DOMAIN v.vs} IN
  v.vs # <<>> /\ "E" \notin kinds /\ (uniform => Cardinality(kinds \ {"Z"}) <= 1)
EntryOk(e) ==
  IF e.m \in {"all", "of"} THEN e.v.t = "list" /\ ListOk("none", e.v, TRUE)
  ELSE IF e.v.t = "list" THEN ListOk(e.m, e.v, FALSE)
  ELSE IF e.v.t = "null" THEN TRUE
  ELSE MemKind(e.m, e.v) # "E"

BodyOk(b) == IF b.t = "map" THEN MapOk(b)
             ELSE b.t = "seq" /\ b.ms # <<>> /\ \A i \in DOMAIN b.ms : b.ms[i].t = "map" /\ MapOk(b.ms[i])
(* every identifier body of a source loads *)
BodiesOk(src) == \A i \in DOMAIN src.ids : BodyOk(src.ids[i][2])
=============================================================================
