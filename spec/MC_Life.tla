------------------------------- MODULE MC_Life -------------------------------
(***************************************************************************)
(* The life-cycle state machine TauRule explored by TLC ON ITS OWN: every  *)
(* schedule of API calls                                                   *)
(*    opt(sw)   match(obj, doc)   validate(obj)   ser(obj, via)            *)
(*    reopt(obj, sw2)   edit(obj): clone and exchange the example lists     *)
(* on a small universe of rules (a matrix-shaped sequence, a batched list  *)
(* with failing examples, a quantified list next to a nested block, a      *)
(* negated numeric predicate with a cast comparison), up to MaxObj rule    *)
(* objects and MaxSteps calls.                                             *)
(*                                                                         *)
(* The abstract state that distinguishes two histories is                  *)
(*    objs    which objects exist (switch set, where they came from)       *)
(*    den     which (class, document) verdicts have been observed          *)
(*    seenm   per object: the documents already matched through it         *)
(*    flags   per object: validated / serialised before                    *)
(* `hist` (the schedule that led here) is hidden by the VIEW, so TLC       *)
(* visits every abstract state once and takes every TRANSITION of the      *)
(* abstract graph once; each transition prints its schedule (the shortest  *)
(* one reaching its source state, plus the call) and the harness executes  *)
(* it call by call against the real Rule objects (runner `sched`); the     *)
(* recorded events are validated by TraceTau like any other trace.         *)
(*                                                                         *)
(* Design-level invariants of the machine itself:                          *)
(*   DenSound     nothing is ever bound that the language layer rejects    *)
(*   ValidateLaw  validate() is enabled with exactly one outcome, and that *)
(*                outcome is "ok" iff every true_positives example is a    *)
(*                match of the language layer and no true_negatives one is *)
(*                (C13 against the oracle, for every object and history)   *)
(*   ReloadPlain  a reloaded object is of the not-optimised class (C14)    *)
(*   OnceOnly     a re-optimised object keeps the class of its origin      *)
(*   SwBlind      the verdicts the machine allows do not depend on the     *)
(*                object's switch set, nor on what happened before (C01,   *)
(*                C12)                                                     *)
(*   Pure         (action property, TauRule) matching changes no rule      *)
(***************************************************************************)
EXTENDS TauRule, TauGen, TLC, Json

CONSTANTS MaxObj,     \* rule objects per schedule
          MaxSteps,   \* calls per schedule
          SwIdx,      \* which switch sets opt() may use (indices into SwTable)
          CaseIdx     \* which rules of the universe

VARIABLES hist, seenm, flags
lvars == <<cur, phase, objs, den, prints, hist, seenm, flags>>

SwTable == << <<>>, <<TRUE, TRUE, TRUE, TRUE>>, <<FALSE, TRUE, FALSE, FALSE>>, <<FALSE, FALSE, FALSE, TRUE>>,
              <<TRUE, FALSE, TRUE, FALSE>> >>
Sws == {SwTable[i] : i \in SwIdx}

-----------------------------------------------------------------------------
(* the universe of rules *)
F0 == Fld(0)  F1 == Fld(1)
A == IdN(1)  B == IdN(2)
La == <<97>>  Lb == <<98>>  Lc == <<99>>  Lx == <<120>>  Ly == <<121>>  Lk == <<107>>
One == MkInt(FALSE, <<1>>)  Two == MkInt(FALSE, <<2>>)
Doc2(v0, v1) == OV((IF v0.t = "absent" THEN <<>> ELSE << <<F0, v0>> >>) \o (IF v1.t = "absent" THEN <<>> ELSE << <<F1, v1>> >>))
Abs == [t |-> "absent"]
Ex(i) == [d |-> i]

Plan == [scope |-> "sw", valpin |-> TRUE, eng |-> FALSE, sched |-> TRUE]
Mk(id, src, docs, tps, tns) ==
  [topic |-> "life", form |-> "life", id |-> id, oracle |-> TRUE, wt |-> TRUE, src |-> src, docs |-> docs,
   tps |-> tps, tns |-> tns, plan |-> Plan]

Cases == <<
  \* 1: a sequence of two-key mappings sharing f0 (matrix-shaped, prefix/suffix searches); examples hold
  Mk(1, Src(Id(A), << <<A, SeqB(<<MapB(<<Ent(F0, ExactP(Lx)), Ent(F1, Pat("prefix", FALSE, La))>>),
                                  MapB(<<Ent(F0, ExactP(Ly)), Ent(F1, Pat("suffix", FALSE, Lb))>>)>>)>> >>),
     <<Doc2(SV(Lx), SV(La \o Lb)), Doc2(SV(Ly), SV(La)), Doc2(Abs, SV(La \o Lb))>>,
     <<Ex(0)>>, <<Ex(1), Ex(2)>>),
  \* 2: a batched list with a regex member; the second positive and the second negative example FAIL
  Mk(2, Src(Id(A), << <<A, MapB(<<Ent(F0, ListV(<<ContainsP(La), ContainsP(Lb), Rx(<<RxC(99)>>, FALSE)>>))>>)>> >>),
     <<Doc2(SV(Lx \o La), Abs), Doc2(SV(Lx \o Ly), Abs), Doc2(Abs, SV(La))>>,
     <<Ex(0), Ex(1)>>, <<Ex(2), Ex(0)>>),
  \* 3: of(f0, 2) over a whole-list batch, and-ed with a nested block
  Mk(3, Src(AndC(Id(A), Id(B)),
            << <<A, MapB(<<EntM("of", 2, F0, ListV(<<ContainsP(La), ContainsP(Lb), ContainsP(Lc)>>))>>)>>,
               <<B, MapB(<<Ent(F1, MapV(<<Ent(Lk, NumV(One))>>))>>)>> >>),
     <<Doc2(SV(La \o Lb), OV(<< <<Lk, IV(FALSE, <<1>>)>> >>)), Doc2(SV(La), OV(<< <<Lk, IV(FALSE, <<1>>)>> >>)),
       Doc2(SV(La \o Lc), AV(<<OV(<<>>), OV(<< <<Lk, IV(FALSE, <<1>>)>> >>)>>))>>,
     <<Ex(0), Ex(2)>>, <<Ex(1)>>),
  \* 4: a negated numeric predicate or a cast comparison in the condition; one negative example fails
  Mk(4, Src(OrC(NotC(Id(A)), CmpC("gt", CastO("int", F1), ConstO(Two))),
            << <<A, MapB(<<EntM("int", 0, F0, CmpV("gt", One))>>)>> >>),
     <<Doc2(IV(FALSE, <<5>>), IV(FALSE, <<1>>)), Doc2(IV(FALSE, <<0>>), Abs), Doc2(SV(<<51>>), SV(<<57>>))>>,
     <<Ex(1)>>, <<Ex(0), Ex(2)>>)
>>

-----------------------------------------------------------------------------
Init == /\ \E i \in CaseIdx : cur = Cases[i]
        /\ phase = "idle" /\ objs = <<>> /\ den = <<>> /\ prints = <<>>
        /\ hist = <<>> /\ seenm = <<>> /\ flags = <<>>

More == Len(hist) < MaxSteps
Room == Len(objs) < MaxObj
Obj(k) == k + 1 \in DOMAIN objs /\ objs[k + 1].st = "ok"
Observed(s) == s.op \notin {"opt", "edit"}
Out(h) == PrintT("REPLAY " \o ToJson([use |-> cur.id, sched |-> h]))
Call(s) == /\ hist' = Append(hist, s)
           /\ (Observed(s) => Out(Append(hist, s)))

LLoad == /\ Load("ok") /\ UNCHANGED <<hist, seenm, flags>>

LOpt(sw) == /\ More /\ Room /\ Optimise(Len(objs), sw, "ok", <<>>)
            /\ Call([op |-> "opt", sw |-> sw])
            /\ seenm' = Append(seenm, {}) /\ flags' = Append(flags, {})

LMatch(k, d) == /\ More /\ Obj(k)
                /\ \E v \in Allowed(k, d) : Match(k, d, v)
                /\ Call([op |-> "match", obj |-> k, d |-> d - 1])
                /\ seenm' = [seenm EXCEPT ![k + 1] = @ \cup {d}] /\ UNCHANGED flags

ExIdx == 0..(Len(Examples(cur)) - 1)
LValidate(k) == /\ More /\ Obj(k)
                /\ \E out \in {"ok", "err"}, named \in SUBSET ExIdx : Validate(k, out, "Validation", named)
                /\ Call([op |-> "validate", obj |-> k])
                /\ flags' = [flags EXCEPT ![k + 1] = @ \cup {"val"}] /\ UNCHANGED seenm

(* serde_yaml::to_string(&obj), then from_str / from_value of the text: a new object.  One call  *)
(* of the schedule is the composition Serialise \cdot Reload of TauRule (Serialise leaves the      *)
(* state unchanged and has Reload's guard, so the composition is Reload)                          *)
LSer(k, via) == /\ More /\ Room /\ Obj(k) /\ ~Swapped(k)
                /\ Reload(k, Len(objs), "ok", TRUE)
                /\ Call([op |-> "ser", obj |-> k, via |-> via])
                /\ seenm' = Append(seenm, {})
                /\ flags' = Append([flags EXCEPT ![k + 1] = @ \cup {"ser"}], {})

LReopt(k, sw2) == /\ More /\ Room /\ Obj(k) /\ sw2 # <<>> /\ ~Swapped(k)
                  /\ ReOptimise(k, Len(objs), "ok", TRUE)
                  /\ Call([op |-> "reopt", obj |-> k, sw2 |-> sw2])
                  /\ seenm' = Append(seenm, {}) /\ flags' = Append(flags, {})

(* the example lists are public: the owner edits a clone.  The clone inherits what its origin   *)
(* went through (a memo of an earlier validate() would come along with it)                       *)
LEdit(k) == /\ More /\ Room /\ Obj(k)
            /\ EditExamples(k, Len(objs), "ok")
            /\ Call([op |-> "edit", obj |-> k])
            /\ seenm' = Append(seenm, seenm[k + 1]) /\ flags' = Append(flags, flags[k + 1])

Next == \/ LLoad
        \/ \E k \in 0..(MaxObj - 1) : LEdit(k)
        \/ \E sw \in Sws : LOpt(sw)
        \/ \E k \in 0..(MaxObj - 1), d \in DOMAIN cur.docs : LMatch(k, d)
        \/ \E k \in 0..(MaxObj - 1) : LValidate(k)
        \/ \E k \in 0..(MaxObj - 1), via \in {"str", "value"} : LSer(k, via)
        \/ \E k \in 0..(MaxObj - 1), sw2 \in Sws : LReopt(k, sw2)
Spec == Init /\ [][Next]_lvars

-----------------------------------------------------------------------------
View == <<cur.id, phase, objs, den, seenm, flags>>

(* the base cases, printed once (the schedules refer to them by id) *)
EmitDefs == (phase = "idle") => PrintT("REPLAY " \o ToJson([def |-> cur.id, case |-> cur]))

-----------------------------------------------------------------------------
(* design-level invariants *)
SrcDoc(k, d) == LangVerdicts(Ast(SrcOf(k)), cur.docs[d])
DenSound == \A x \in DOMAIN den :
              \E k \in 0..(Len(objs) - 1), d \in DOMAIN cur.docs : DK(k, d) = x /\ den[x] \in SrcDoc(k, d)

LangFailing(k) == {i \in ExIdx : LET ex == Examples(cur)[i + 1] v == LangVerdicts(Ast(cur.src), cur.docs[ExDoc(ex)]) IN
                                 IF IsPositive(k, i + 1) THEN v = {FALSE} ELSE v = {TRUE}}
ValidateLaw ==
  \A k \in 0..(Len(objs) - 1) : (phase = "loaded" /\ Obj(k)) =>
     /\ ExamplesBound(k)                               \* with the oracle's pin validate() is always enabled
     /\ LET outs == {o \in {"ok", "err"} : \E named \in SUBSET ExIdx : ValidateOk(k, o, "Validation", named)} IN
        /\ Cardinality(outs) = 1
        /\ ("ok" \in outs) = (LangFailing(k) = {})
     /\ ValidateOk(k, IF LangFailing(k) = {} THEN "ok" ELSE "err", "Validation", LangFailing(k))

ReloadPlain == \A i \in DOMAIN hist : hist[i].op = "ser" =>
                 LET born == Cardinality({j \in 1..i : hist[j].op \notin {"match", "validate"}}) IN
                 objs[born].sw = NoSw
OnceOnly == \A i \in DOMAIN hist : hist[i].op = "reopt" =>
                 LET born == Cardinality({j \in 1..i : hist[j].op \notin {"match", "validate"}}) IN
                 objs[born].sw = objs[hist[i].obj + 1].sw /\ objs[born].sw # NoSw
SwBlind == \A k1, k2 \in 0..(Len(objs) - 1), d \in DOMAIN cur.docs :
             (phase = "loaded" /\ Obj(k1) /\ Obj(k2)) => SrcDoc(k1, d) = SrcDoc(k2, d)
Bounded == Len(hist) <= MaxSteps /\ Len(objs) <= MaxObj /\ Len(seenm) = Len(objs) /\ Len(flags) = Len(objs)
=============================================================================
