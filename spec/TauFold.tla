------------------------------- MODULE TauFold -------------------------------
(***************************************************************************)
(* The solver's group loops as STREAMING fold machines, for UNBOUNDED      *)
(* arity.  MC_Tri checks "loop result \in admissible table" with TLC for   *)
(* every vector of at most MaxK results; here the same loops consume one   *)
(* operand result per step from an unbounded stream, and the statement     *)
(*                                                                         *)
(*   after ANY number of operands, the value each loop would return if     *)
(*   the group ended here is the closed form of TauTri (AndN, OrN, OfAdm)  *)
(*   evaluated on the operands consumed so far                             *)
(*                                                                         *)
(* is an INDUCTIVE invariant, discharged by Apalache for every arity and   *)
(* every threshold c (an unconstrained integer):                           *)
(*   apalache-mc check --init=Init    --inv=IndInv --length=0 TauFold.tla  *)
(*   apalache-mc check --init=IndInit --inv=IndInv --length=1 TauFold.tla  *)
(* The closed forms depend on the operands only through                    *)
(*   trues (how many were true), anyF, anyM, first (first non-true result) *)
(* of which all but `first` are order-free; `first` matters only for the   *)
(* non-true VALUE of and/all, never for the verdict (C17 at any arity).    *)
(*                                                                         *)
(* The loops are the ones transcribed in TauTri (EngAndGroup, EngOrLoop,   *)
(* EngOfLoop: solver.rs BooleanGroup(And|Or), Match(All|Of(c))) written as *)
(* one step per operand with the early exits as `stop` flags; TLC checks   *)
(* in MC_Fold that the streaming step and the recursive fold agree.        *)
(***************************************************************************)
EXTENDS Integers

VARIABLES
  \* @type: Int;
  c,        \* threshold of of(.., c); any natural
  \* @type: Int;
  trues,    \* summary of the operands consumed so far
  \* @type: Bool;
  anyF,
  \* @type: Bool;
  anyM,
  \* @type: Str;
  first,    \* first non-true operand, "T" if none yet
  \* @type: Str;
  andRes,   \* BooleanGroup(And) / Match(All): result if the group ended here
  \* @type: Bool;
  andStop,  \* the loop has returned early
  \* @type: Str;
  orRes,    \* BooleanGroup(Or)
  \* @type: Bool;
  orStop,
  \* @type: Str;
  ofRes,    \* Match(Of(c))
  \* @type: Int;
  ofCount,
  \* @type: Bool;
  ofStop

vars == <<c, trues, anyF, anyM, first, andRes, andStop, orRes, orStop, ofRes, ofCount, ofStop>>

Tri == {"T", "F", "M"}

Init0 ==
  /\ trues = 0 /\ anyF = FALSE /\ anyM = FALSE /\ first = "T"
  /\ andRes = "T" /\ andStop = FALSE
  /\ orRes = "M" /\ orStop = FALSE
  /\ ofRes = "M" /\ ofCount = 0 /\ ofStop = FALSE
Init == c \in Nat /\ Init0

(* one operand result r arrives *)
Step(r) ==
  /\ c' = c
  /\ trues' = IF r = "T" THEN trues + 1 ELSE trues
  /\ anyF' = (anyF \/ r = "F")
  /\ anyM' = (anyM \/ r = "M")
  /\ first' = IF first = "T" THEN r ELSE first
  \* solver.rs BooleanGroup(And): return the first operand that is not true
  /\ IF andStop \/ r = "T" THEN UNCHANGED <<andRes, andStop>>
     ELSE andRes' = r /\ andStop' = TRUE
  \* solver.rs BooleanGroup(Or): res starts Missing; True returns; False overwrites
  /\ IF orStop THEN UNCHANGED <<orRes, orStop>>
     ELSE IF r = "T" THEN orRes' = "T" /\ orStop' = TRUE
     ELSE orRes' = (IF r = "F" THEN "F" ELSE orRes) /\ orStop' = FALSE
  \* solver.rs Match(Of(c)): c = 0 none may be true; c >= 1 count the true ones
  /\ IF ofStop THEN UNCHANGED <<ofRes, ofCount, ofStop>>
     ELSE IF c = 0
          THEN IF r = "T" THEN ofRes' = "F" /\ ofStop' = TRUE /\ ofCount' = ofCount
               ELSE ofRes' = (IF r = "F" THEN "T" ELSE ofRes) /\ ofStop' = FALSE /\ ofCount' = ofCount
          ELSE IF r = "T"
               THEN IF ofCount + 1 >= c THEN ofRes' = "T" /\ ofStop' = TRUE /\ ofCount' = ofCount + 1
                    ELSE ofRes' = ofRes /\ ofStop' = FALSE /\ ofCount' = ofCount + 1
               ELSE ofRes' = (IF r = "F" THEN "F" ELSE ofRes) /\ ofStop' = FALSE /\ ofCount' = ofCount

Next == \E r \in Tri : Step(r)
Spec == Init /\ [][Next]_vars

-----------------------------------------------------------------------------
(* closed forms of TauTri on the summary *)
AndClosed == first                                          \* AndN: first non-true, else "T"
OrClosed  == IF trues > 0 THEN "T" ELSE IF anyF THEN "F" ELSE "M"           \* OrN
OfClosed  == IF c >= 1 THEN IF trues >= c THEN "T" ELSE IF anyF THEN "F" ELSE "M"
             ELSE IF trues > 0 THEN "F" ELSE IF anyF THEN "T" ELSE "M"      \* OfAdm (pinned part)

TypeOK ==
  /\ c >= 0 /\ trues >= 0 /\ ofCount >= 0
  /\ first \in Tri /\ andRes \in Tri /\ orRes \in Tri /\ ofRes \in Tri

Summary ==   \* the summary variables are consistent with one another
  /\ (first = "F" => anyF) /\ (first = "M" => anyM)
  /\ (first = "T" <=> (~anyF /\ ~anyM))

Correct ==
  /\ andRes = AndClosed /\ andStop = (first # "T")
  /\ orRes = OrClosed /\ orStop = (trues > 0)
  /\ ofRes = OfClosed
  /\ ofStop = (IF c >= 1 THEN trues >= c ELSE trues > 0)
  /\ (~ofStop => ofCount = trues)

(* verdicts depend on order-free quantities only *)
VerdictOrderFree ==
  /\ (andRes = "T") = (~anyF /\ ~anyM)
  /\ (orRes = "T") = (trues > 0)
  /\ (ofRes = "T") = (IF c >= 1 THEN trues >= c ELSE (trues = 0 /\ anyF))

IndInv == TypeOK /\ Summary /\ Correct /\ VerdictOrderFree

(* any state satisfying the invariant: the induction hypothesis *)
IndInit ==
  /\ c \in Int /\ trues \in Int /\ ofCount \in Int
  /\ anyF \in BOOLEAN /\ anyM \in BOOLEAN
  /\ andStop \in BOOLEAN /\ orStop \in BOOLEAN /\ ofStop \in BOOLEAN
  /\ first \in Tri /\ andRes \in Tri /\ orRes \in Tri /\ ofRes \in Tri
  /\ IndInv
=============================================================================
