------------------------------- MODULE MC_Path -------------------------------
(***************************************************************************)
(* C10: field paths.  Universe: documents {a: X, b: Y} where X ranges over *)
(* every SHAPE of depth <= Depth built from a leaf, an empty array, an     *)
(* empty object, objects over keys {a, b} and arrays of length 1..2, and   *)
(* Y over a few small values; every leaf is then labelled with its own     *)
(* position, so a value fabricated from another key, a shorter path or a   *)
(* different index is visible.  Keys: every well-formed path of 1..PathLen *)
(* segments over {a, b, a[0], a[1], b[0]}.                                 *)
(*   WalkIsFind   the engine's loop over the segments with its             *)
(*                Option<Value> cursor returns exactly the value reached   *)
(*                by descent - except on the NAMED deviation               *)
(* Emitted: one case per document with all keys; the harness calls         *)
(* Object::find / Document::find on four representations.                  *)
(***************************************************************************)
EXTENDS TauGen, TLC, Json

CONSTANTS Depth, PathLen, Dev

VARIABLES shape, yv, pc
vars == <<shape, yv, pc>>

KA == <<97>>  KB == <<98>>
L == [t |-> "S", s |-> <<>>]
EA == AV(<<>>)
EO == OV(<<>>)
ABSENT == [t |-> "absent"]

RECURSIVE Shapes(_)
Shapes(d) ==
  IF d = 0 THEN {L, EA, EO}
  ELSE LET S == Shapes(d - 1)
           Opt == S \cup {ABSENT}
           Objs == {OV((IF x.t = "absent" THEN <<>> ELSE << <<KA, x>> >>) \o (IF y.t = "absent" THEN <<>> ELSE << <<KB, y>> >>)) :
                      x \in Opt, y \in Opt}
           Arrs == {AV(<<x>>) : x \in S} \cup {AV(<<x, y>>) : x \in S, y \in S}
       IN S \cup Objs \cup Arrs

YVals == {ABSENT, L, OV(<< <<KA, L>> >>), AV(<<L>>)}

Init == pc = "gen" /\ shape \in Shapes(Depth) \cup {ABSENT} /\ yv \in YVals
Next == pc = "gen" /\ pc' = "done" /\ UNCHANGED <<shape, yv>>
Spec == Init /\ [][Next]_vars

(* label every leaf string with its position *)
RECURSIVE Label(_, _)
Label(v, path) ==
  CASE v.t = "S" -> [t |-> "S", s |-> path]
    [] v.t = "A" -> AV([i \in DOMAIN v.vs |-> Label(v.vs[i], path \o <<91, 47 + i, 93>>)])
    [] v.t = "O" -> OV([i \in DOMAIN v.kv |-> <<v.kv[i][1], Label(v.kv[i][2], path \o <<46>> \o v.kv[i][1])>>])
    [] OTHER -> v

Doc == Label(OV((IF shape.t = "absent" THEN <<>> ELSE << <<KA, shape>> >>)
                \o (IF yv.t = "absent" THEN <<>> ELSE << <<KB, yv>> >>)), <<>>)

(* ... and a segment whose NAME is a number (`a.0`): a member name like any other - on an array it  *)
(* addresses nothing (only `a[0]` indexes)                                                       *)
Segs == { KA, KB, KA \o <<91, 48, 93>>, KA \o <<91, 49, 93>>, KB \o <<91, 48, 93>>, <<48>> }
RECURSIVE JoinDot(_)
JoinDot(ss) == IF Len(ss) = 1 THEN ss[1] ELSE ss[1] \o <<46>> \o JoinDot(Tail(ss))
Keys == {JoinDot(ss) : ss \in UNION {[1..k -> Segs] : k \in 1..PathLen}}

(* keys with an EMPTY segment (a trailing, leading or doubled dot): the empty name is an ordinary *)
(* member name that no document of the universe has, so such a key is missing - it is never      *)
(* answered from the shorter path                                                               *)
ShortKeys == {JoinDot(ss) : ss \in UNION {[1..k -> Segs] : k \in 1..2}}
DotKeys == {k \o <<46>> : k \in ShortKeys} \cup {<<46>> \o k : k \in ShortKeys}
           \cup {a \o <<46, 46>> \o b : a \in Segs, b \in Segs}
EmptySegMissing == \A k \in DotKeys : CheckablePath(k) /\ IsNone(Find(Doc, k)) /\ IsNone(EngFind(Doc, k, {}))
(* keys whose index is not a number: `a[]`, `a[x]`, `a[*].b`, `b.a[-1]` *)
(* ... a signed index `a[+1]`, `a[+0]`, and a second index group `a[1][0]`, `a[0][1]`          *)
BadIdx == {<<>>, <<120>>, <<42>>, <<45, 49>>, <<43, 49>>, <<43, 48>>, <<49, 93, 91, 48>>, <<48, 93, 91, 49>>}
IdxKeys == {KA \o <<91>> \o t \o <<93>> : t \in BadIdx}
           \cup {KA \o <<91>> \o t \o <<93, 46>> \o KB : t \in BadIdx}
           \cup {KB \o <<46>> \o KA \o <<91>> \o t \o <<93>> : t \in BadIdx}
BadIndexMissing == \A k \in IdxKeys : CheckablePath(k) /\ IsNone(Find(Doc, k)) /\ IsNone(EngFind(Doc, k, Dev))

KnownDeviation(k) == "find_restarts_at_root" \in Dev
WalkIsFind == \A k \in Keys : WellFormedPath(k) /\ (EngFind(Doc, k, Dev) = Find(Doc, k) \/ KnownDeviation(k))
(* with the deviation switched off the walk IS the descent *)
IdealWalkIsFind == \A k \in Keys : EngFind(Doc, k, {}) = Find(Doc, k)

Emit == pc = "done" =>
  PrintT("REPLAY " \o ToJson([topic |-> "C10", run |-> "find", form |-> "doc",
                               doc |-> Doc, keys |-> SetSeq(Keys) \o SetSeq(DotKeys) \o SetSeq(IdxKeys)]))
=============================================================================
