------------------------------- MODULE MC_Str --------------------------------
(***************************************************************************)
(* C07: string predicates, single and batched.  Universe: alphabet         *)
(* {a, b, A}; every needle of length 0..MaxNeedle; every haystack of       *)
(* length 0..MaxHay; kinds exact / prefix / suffix / contains / any and a  *)
(* family of regexes of the modelled sub-language; with and without the    *)
(* case-insensitive flag; singles and (PairNeedle >= 0) all ordered pairs  *)
(* of patterns with needles of length <= PairNeedle on one field.          *)
(*   SingleOk  the engine's search for one pattern (std string function,   *)
(*             or a one-needle case-insensitive automaton filtered by hit  *)
(*             offsets) is the documented relation                         *)
(*   BatchOk   a batch of two patterns in one automaton, filtered per      *)
(*             member kind by start = 0 / end = len, is the OR of its      *)
(*             members, and its hit count is the number of true members    *)
(*   RewriteOk stripping a leading / trailing ".*" (optimiser rewrite)     *)
(*             does not change the regex search                            *)
(* Emitted: one case per pattern (pair) with every haystack as a document. *)
(***************************************************************************)
EXTENDS TauGen, TLC, Json

CONSTANTS MaxNeedle, MaxHay, PairNeedle, PairHay

VARIABLES p1, p2, pc
vars == <<p1, p2, pc>>

Sigma == {97, 98, 65}
Words(n) == UNION {[1..k -> Sigma] : k \in 0..n}
Hays == Words(MaxHay)

PlainKinds == {"exact", "prefix", "suffix", "contains"}
Plain(n) == {Pat(k, ic, a) : k \in PlainKinds, ic \in BOOLEAN, a \in Words(n)}
ReAtoms == { <<RxC(97)>>, <<RxC(97), [t |-> "dot"]>>, <<[t |-> "bol"], RxC(97)>>, <<RxC(98), [t |-> "eol"]>>,
             <<RxC(97), [t |-> "star"], RxC(98)>>, <<[t |-> "star"], RxC(97)>>, <<RxC(97), [t |-> "star"]>>,
             <<[t |-> "lazy"], RxC(98)>>, <<[t |-> "dot"], [t |-> "dot"]>>, <<[t |-> "bol"], [t |-> "eol"]>>,
             <<[t |-> "star"], RxC(65), [t |-> "star"]>>,
             \* classes, bracket sets and repetition
             <<[t |-> "c", c |-> 97, rep |-> "+"], RxC(98)>>, <<[t |-> "bol"], [t |-> "c", c |-> 97, rep |-> "?"], RxC(98), [t |-> "eol"]>>,
             <<[t |-> "set", cs |-> <<97, 98>>, neg |-> FALSE], [t |-> "eol"]>>, <<[t |-> "bol"], [t |-> "set", cs |-> <<97>>, neg |-> TRUE, rep |-> "+"], [t |-> "eol"]>>,
             <<[t |-> "cls", n |-> "W"]>>, <<[t |-> "bol"], [t |-> "cls", n |-> "w", rep |-> "*"], [t |-> "eol"]>>,
             <<[t |-> "cls", n |-> "D", rep |-> "+"], RxC(65)>> }
Regexes == {Rx(r, ic) : r \in ReAtoms, ic \in BOOLEAN}
Singles == Plain(MaxNeedle) \cup {Pat("any", ic, <<>>) : ic \in BOOLEAN} \cup Regexes
PairSet == IF PairNeedle < 0 THEN {} ELSE Plain(PairNeedle) \cup Regexes
NoPat == [t |-> "none"]

Init == pc = "gen" /\ ((p1 \in Singles /\ p2 = NoPat) \/ (p1 \in PairSet /\ p2 \in PairSet))
Next == pc = "gen" /\ pc' = "done" /\ UNCHANGED <<p1, p2>>
Spec == Init /\ [][Next]_vars

IsPair == p2.t # "none"
AsBatch(p) == [k |-> p.k, a |-> p.a]

(* the engine's single search: std functions when case-sensitive, a one-needle automaton when ic *)
EngSingle(p, h) ==
  IF p.k \in PlainKinds /\ p.ic /\ ~(p.k = "exact" /\ p.a = <<>>)
  THEN AhoAny(<<[k |-> p.k, a |-> Low(p.a)]>>, TRUE, h)
  ELSE Matches(p, h)

SingleOk == \A h \in Hays : EngSingle(p1, h) = Matches(p1, h)

Batchable == IsPair /\ p1.k \in PlainKinds /\ p2.k \in PlainKinds /\ p1.ic = p2.ic
             /\ ~(p1.k = "exact" /\ p1.a = <<>>) /\ ~(p2.k = "exact" /\ p2.a = <<>>)
BatchOk == Batchable =>
  \A h \in Hays :
     LET b == <<[k |-> p1.k, a |-> IF p1.ic THEN Low(p1.a) ELSE p1.a],
                [k |-> p2.k, a |-> IF p2.ic THEN Low(p2.a) ELSE p2.a]>> IN
     /\ AhoAny(b, p1.ic, h) = (Matches(p1, h) \/ Matches(p2, h))
     /\ AhoCount(b, p1.ic, h) = (IF Matches(p1, h) THEN 1 ELSE 0) + (IF Matches(p2, h) THEN 1 ELSE 0)

RewriteOk == p1.k = "regex" =>
  \A h \in Hays : ReSearch(ReRewrite(p1.a), p1.ic, h) = ReSearch(p1.a, p1.ic, h)

F == Fld(0)
CaseSrc == Src(Id(IdN(1)), << <<IdN(1), MapB(<<Ent(F, IF IsPair THEN ListV(<<p1, p2>>) ELSE p1)>>)>> >>)
Docs == SetSeq({OV(<< <<F, SV(h)>> >>) : h \in (IF IsPair THEN Words(PairHay) ELSE Hays)}) \o <<OV(<<>>)>>

Emit == pc = "done" =>
  PrintT("REPLAY " \o ToJson([topic |-> "C07", form |-> IF IsPair THEN "pair" ELSE "single",
                               oracle |-> TRUE, wt |-> TRUE, src |-> CaseSrc, docs |-> Docs,
                               plan |-> [tri |-> FALSE, sws |-> << <<>>, <<TRUE, TRUE, TRUE, TRUE>> >>]]))
=============================================================================
