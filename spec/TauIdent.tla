------------------------------- MODULE TauIdent -----------------------------
(***************************************************************************)
(* The textual layer of identifier patterns (identifier.rs:                *)
(* IdentifierParser::into_identifier): a string value of a rule is         *)
(*    [i] ( ?regex | >=n | >n | <=n | <n | =n | * | *x* | *x | x* |        *)
(*          "x" | 'x' | x )                                                *)
(* tried in exactly this order.  Engine layer: the cascade of strip_prefix *)
(* / slicing operations with their byte-slice preconditions made explicit  *)
(* (a violated precondition is a PANIC).  Language layer: Render, the      *)
(* documented way to WRITE a pattern, and the law IntoId(Render(p)) = p.    *)
(***************************************************************************)
EXTENDS Naturals, Sequences, FiniteSets, TauBase, TauNum

StartsWith(s, c) == s # <<>> /\ s[1] = c
EndsWith(s, c) == s # <<>> /\ s[Len(s)] = c
StartsWith2(s, a, b) == Len(s) >= 2 /\ s[1] = a /\ s[2] = b

(* outcome of parsing a numeric suffix the way Rust's str::parse does *)
(*   "ok"  certainly parses, "err" certainly does not, "unk" outside the modelled syntax *)
I64Parse(t) ==
  LET neg == StartsWith(t, 45) plus == StartsWith(t, 43)
      body == IF neg \/ plus THEN Tail(t) ELSE t
  IN IF AllDigits(body) THEN (IF FitsI64(MkInt(neg, ToDigits(body))) THEN "ok" ELSE "err")
     ELSE "err"
F64Simple(t) ==   \* [+-]? digits [. digits]? | [+-]? . digits
  LET sgn == StartsWith(t, 45) \/ StartsWith(t, 43)
      body == IF sgn THEN Tail(t) ELSE t
      dots == {i \in DOMAIN body : body[i] = 46}
  IN IF dots = {} THEN AllDigits(body)
     ELSE Cardinality(dots) = 1 /\ Len(body) >= 2 /\
          LET p == CHOOSE i \in dots : TRUE IN
          (p = 1 \/ AllDigits(SubSeq(body, 1, p - 1))) /\ (p = Len(body) \/ AllDigits(SubSeq(body, p + 1, Len(body))))
FloatWordChars == {101, 69, 105, 110, 102, 97, 116, 121, 73, 78, 70, 65, 84, 89, 43, 45, 46, 95} \cup (48..57)
F64Parse(t) == IF F64Simple(t) THEN "ok"
               ELSE IF t # <<>> /\ \A i \in DOMAIN t : t[i] \in FloatWordChars THEN "unk"
               ELSE "err"
NumParse(t) == IF \E i \in DOMAIN t : t[i] = 46 THEN F64Parse(t) ELSE I64Parse(t)

(* result: [st |-> "ok"|"err"|"unk"|"panic", k, ic, a] *)
Res(st, k, ic, a) == [st |-> st, k |-> k, ic |-> ic, a |-> a]
Fold(ic, a) == IF ic THEN Low(a) ELSE a

(* dev: named deviations switched on; "lone_quote_slice": a one-character string that is a   *)
(* quote satisfies starts_with && ends_with and string[1..0] panics                          *)
IntoId(s, icBuild, dev) ==
  LET ic == icBuild \/ StartsWith(s, 105)
      str == IF icBuild THEN s ELSE IF StartsWith(s, 105) THEN Tail(s) ELSE s
      n == Len(str)
  IN
  IF StartsWith(str, 63) THEN Res("unk", "regex", ic, Tail(str))            \* regex crate decides
  ELSE IF StartsWith2(str, 62, 61) THEN Res(NumParse(SubSeq(str, 3, n)), "ge", ic, SubSeq(str, 3, n))
  ELSE IF StartsWith(str, 62) THEN Res(NumParse(Tail(str)), "gt", ic, Tail(str))
  ELSE IF StartsWith2(str, 60, 61) THEN Res(NumParse(SubSeq(str, 3, n)), "le", ic, SubSeq(str, 3, n))
  ELSE IF StartsWith(str, 60) THEN Res(NumParse(Tail(str)), "lt", ic, Tail(str))
  ELSE IF StartsWith(str, 61) THEN Res(NumParse(Tail(str)), "eq", ic, Tail(str))
  ELSE IF str = <<42>> THEN Res("ok", "any", ic, <<>>)
  ELSE IF StartsWith(str, 42) /\ EndsWith(str, 42) THEN Res("ok", "contains", ic, Fold(ic, SubSeq(str, 2, n - 1)))
  ELSE IF StartsWith(str, 42) THEN Res("ok", "suffix", ic, Fold(ic, Tail(str)))
  ELSE IF EndsWith(str, 42) THEN Res("ok", "prefix", ic, Fold(ic, SubSeq(str, 1, n - 1)))
  ELSE IF (StartsWith(str, 34) /\ EndsWith(str, 34)) \/ (StartsWith(str, 39) /\ EndsWith(str, 39))
       THEN IF n >= 2 THEN Res("ok", "exact", ic, Fold(ic, SubSeq(str, 2, n - 1)))
            ELSE IF "lone_quote_slice" \in dev THEN Res("panic", "exact", ic, <<>>)   \* string[1..0]
            ELSE Res("ok", "exact", ic, Fold(ic, str))
  ELSE Res("ok", "exact", ic, Fold(ic, str))

-----------------------------------------------------------------------------
(* Language layer: how a pattern is written (TauStr pattern [k, ic, a], a : Str).             *)
(* Renderable(p): the documented forms whose reading is unambiguous.                          *)
Special1 == {63, 62, 60, 61, 42, 34, 39}          \* ? > < = * " '
NeedsQuote(a, icBuild) ==
  a = <<>> \/ a[1] \in Special1 \/ (a[1] = 105 /\ ~icBuild) \/ a[Len(a)] \in {42, 34, 39}
Renderable(p, icBuild) ==
  CASE p.k = "any" -> TRUE
    [] p.k = "contains" -> TRUE
    [] p.k = "suffix" -> p.a # <<>> /\ p.a[Len(p.a)] # 42
    [] p.k = "prefix" -> p.a # <<>> /\ p.a[1] \notin Special1 /\ p.a[Len(p.a)] # 42
                         /\ (p.a[1] # 105 \/ p.ic \/ icBuild)
    [] p.k = "exact" -> TRUE
    [] OTHER -> FALSE
Body(p, icBuild) ==
  CASE p.k = "any" -> <<42>>
    [] p.k = "contains" -> <<42>> \o p.a \o <<42>>
    [] p.k = "suffix" -> <<42>> \o p.a
    [] p.k = "prefix" -> p.a \o <<42>>
    [] p.k = "exact" -> IF NeedsQuote(p.a, icBuild) THEN <<39>> \o p.a \o <<39>> ELSE p.a
Render(p, icBuild) == IF p.ic /\ ~icBuild THEN <<105>> \o Body(p, icBuild) ELSE Body(p, icBuild)

(* the law: what is written is what is read (argument compared after case folding)             *)
ReadsBack(p, icBuild) ==
  LET r == IntoId(Render(p, icBuild), icBuild, {}) IN
  r.st = "ok" /\ r.k = p.k /\ r.ic = (p.ic \/ icBuild)
  /\ r.a = (IF p.k = "any" THEN <<>> ELSE Fold(p.ic \/ icBuild, p.a))
=============================================================================
