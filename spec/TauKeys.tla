------------------------------- MODULE TauKeys ------------------------------
(***************************************************************************)
(* C16: which keys may the engine ask a document for?                      *)
(* A BLOCK is a mapping of the rule: the body of an identifier (asked on   *)
(* the root document) or a nested mapping (asked on the object its field   *)
(* leads to, or on each object element when that field holds an array).    *)
(* A call find(key) on the object at document position `path` is allowed   *)
(* iff some block whose position matches `path` writes `key`; on the root  *)
(* also the fields named by casts in the condition.                        *)
(* Positions are sequences of steps: a member name, or "[i]".              *)
(***************************************************************************)
EXTENDS Naturals, Sequences, FiniteSets, TauBase, TauDoc

(* "b[0]" -> <<"b", "[0]">>;  "b" -> <<"b">> *)
SegSteps(seg) == IF IsIndexed(seg)
                 THEN <<SegName(seg), SubSeq(seg, Len(SegName(seg)) + 1, Len(seg))>>
                 ELSE <<seg>>
RECURSIVE FlatSteps(_)
FlatSteps(segs) == IF segs = <<>> THEN <<>> ELSE SegSteps(Head(segs)) \o FlatSteps(Tail(segs))
FieldSteps(f) == FlatSteps(SplitOn(f, 46))

Block(pre, keys) == [pre |-> pre, keys |-> keys]

RECURSIVE BlocksOf(_, _), ListBlocks(_, _, _)
(* es: entries of a mapping; pre: sequence of the step-sequences of the enclosing fields *)
BlocksOf(es, pre) ==
  {Block(pre, {es[i].f : i \in DOMAIN es})}
  \cup UNION {IF es[i].v.t = "map" THEN BlocksOf(es[i].v.es, Append(pre, FieldSteps(es[i].f)))
              ELSE IF es[i].v.t = "list" THEN ListBlocks(es[i].v.vs, es[i].f, pre)
              ELSE {} : i \in DOMAIN es}
ListBlocks(vs, f, pre) ==
  UNION {IF vs[i].t = "map" THEN BlocksOf(vs[i].es, Append(pre, FieldSteps(f))) ELSE {} : i \in DOMAIN vs}

BodyBlocks(b) == IF b.t = "map" THEN BlocksOf(b.es, <<>>)
                 ELSE UNION {BlocksOf(b.ms[i].es, <<>>) : i \in DOMAIN b.ms}

RECURSIVE CastFields(_), OperandFields(_)
OperandFields(o) == IF o.t = "par" THEN OperandFields(o.e) ELSE IF o.t = "cast" THEN {o.f} ELSE {}
CastFields(c) ==
  CASE c.t \in {"and", "or"} -> CastFields(c.l) \cup CastFields(c.r)
    [] c.t \in {"not", "par"} -> CastFields(c.e)
    [] c.t = "cmp" -> OperandFields(c.l) \cup OperandFields(c.r)
    [] OTHER -> {}

SrcBlocks(src) == UNION {BodyBlocks(src.ids[i][2]) : i \in DOMAIN src.ids}
                  \cup {Block(<<>>, CastFields(src.cond))}

IsIndexStep(s) == s # <<>> /\ s[1] = 91
(* path matches pre: the steps of each enclosing field in turn, each optionally followed by one  *)
(* index step (a nested mapping applied to the elements of an array)                             *)
RECURSIVE PathMatches(_, _)
PathMatches(pre, path) ==
  IF pre = <<>> THEN path = <<>>
  ELSE LET st == Head(pre) n == Len(st) IN
       /\ Len(path) >= n /\ SubSeq(path, 1, n) = st
       /\ \/ PathMatches(Tail(pre), SubSeq(path, n + 1, Len(path)))
          \/ (Len(path) > n /\ IsIndexStep(path[n + 1]) /\ PathMatches(Tail(pre), SubSeq(path, n + 2, Len(path))))

FindAllowed(src, path, key) ==
  \E b \in SrcBlocks(src) : key \in b.keys /\ PathMatches(b.pre, path)
=============================================================================
