#!/usr/bin/env python3
"""Writes /verif/MANIFEST.json from tools/registry.py (one source of truth for the check list)."""
import json, os, sys
sys.path.insert(0, os.path.dirname(os.path.abspath(__file__)))
from registry import PROPS, MANIFEST_TEXT
VERIF = os.path.dirname(os.path.dirname(os.path.abspath(__file__)))
all_ids = [json.loads(l)["id"] for l in open(os.path.join(VERIF, "properties.jsonl")) if l.strip()]
checks = []
for pid in all_ids:
    if pid not in PROPS:
        continue
    t = MANIFEST_TEXT[pid]
    checks.append({
        "property_id": pid,
        "quick_cmd": "./check %s --tier quick" % pid,
        "thorough_cmd": "./check %s --tier thorough" % pid,
        "evidence_file": "/verif/evidence/%s.json" % pid,
        "replay_cmd_template": "./check %s --replay {path}" % pid,
        "engine": "tla-tlc-trace",
        "level_claimed": {"category": "model_checking", "text": t["level"], "design_ref": t.get("ref", "DESIGN.md section 5")},
        "level_note": t["note"],
        "technique": t["technique"],
    })
man = {
    "version": 1,
    "setup_cmd": "./check --setup",
    "hooks": {
        "guard": "tau_engine_verif",
        "enable": "none needed: the checks observe the public API and the crate's own `core` and `json` features (harness/Cargo.toml); the cfg name is reserved and guards no code",
        "baseline_off_cmd": "cd /repo && cargo test --workspace --no-fail-fast --offline",
        "source_commits": [],
        "add_only": True,
    },
    "engines": [{
        "name": "tla-tlc-trace",
        "path": "/verif/spec",
        "serves_properties": [c["property_id"] for c in checks],
        "kind_free_text": "explicit TLA+ specification (spec/*.tla) model-checked with TLC (one module, TauFold, also by Apalache as an inductive invariant); bound to the Rust code by replaying TLC-enumerated cases through harness/tvh and validating the recorded event traces against spec/TraceTau.tla with TLC",
    }],
    "checks": checks,
    "not_applicable": [{"property_id": p, "reason": "check not built yet in this revision (planned, see DESIGN.md section 6)"} for p in all_ids if p not in PROPS],
    "notes": "All checks: ./check <id> --tier quick|thorough (tools/vcheck.py). Known findings: known_findings.json. Seeded changes and their regression: seeded/, tools/seedall.py, seeded/RESULTS.json.",
}
json.dump(man, open(os.path.join(VERIF, "MANIFEST.json"), "w"), indent=1)
print("MANIFEST.json: %d checks, %d not applicable" % (len(checks), len(man["not_applicable"])))
