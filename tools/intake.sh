#!/bin/sh
# intake.sh <Cxx> <worktree> <round-tag>: confirm every _out/m<i> of a sub-agent's worktree (suite green with
# the change, demonstration fails with it and passes without it), then save the confirmed ones to seeded/
P=$1; wt=$2; tag=$3
for m in "$wt"/_out/m*; do
  [ -d "$m" ] || continue
  feat=""; [ -f "$m/features.txt" ] && feat=$(head -1 "$m/features.txt" | tr -d ' \n' | sed 's/,/ /g')
  echo "== $m (features: ${feat:-none})"
  sh "$(dirname "$0")/confirm_seed.sh" "$wt" "$m" "$feat"
done
