#!/usr/bin/env python3
"""seedprompt_angle.py <worktree> <angle text> [n]: the brief of an angle round (5, 6, 9, 12): the agent gets the texts of ALL
properties, one ANGLE, the one-line list of every change kept so far, and names the property each change breaks most directly
(_out/m<i>/property.txt).  Nothing about the checks of /verif."""
import glob, json, os, sys
V = os.path.dirname(os.path.dirname(os.path.abspath(__file__)))
wt, angle = sys.argv[1:3]
n = int(sys.argv[3]) if len(sys.argv) > 3 else 3
props = [json.loads(l) for l in open(os.path.join(V, "properties.jsonl"))]
old = []
for m in sorted(glob.glob(os.path.join(V, "seeded", "C*", "meta.json"))):
    d = json.load(open(m))
    old.append("- [%s] %s" % (d.get("property"), d.get("change", "")[:160]))
ptxt = "\n\n".join("  %s - %s\n  %s" % (p["id"], p["title"], p["statement"]) for p in props)
print(f"""You are helping to evaluate a verification effort for the Rust crate tau-engine (WithSecureLabs/tau-engine), a rule engine
that tokenises and Pratt-parses YAML detection rules, optimises the expression tree and evaluates it with
three-valued logic (true / false / missing) against documents.

Your scratch copy of the repository is the git worktree {wt} (work ONLY there; never touch /repo or /verif,
do not read /verif). It builds and tests offline: `cd {wt} && cargo test --workspace --no-fail-fast --offline`
(137 tests + doctests pass). Features `core`, `json` and `ignore_case` exist and build offline.

The properties under study (users rely on these for EVERY input, schedule and history):

{ptxt}

TASK: write {n} DIFFERENT realistic changes to tau-engine (src/ only), each of which BREAKS one of these properties while the
crate still compiles and the existing test suite (all 137 tests and the doctests, unedited) still passes. Your ANGLE for
all {n}: **{angle}**. Each must look like something a maintainer could plausibly commit (a performance shortcut, a refactoring,
a well-meant leniency, a merge of duplicated code, a changed boundary, error handling, a cache ...), not sabotage.
Prefer changes that need something SPECIFIC to manifest - an unusual input, a particular switch combination, a
multi-step sequence of operations, a particular schedule or repetition, two cooperating sites that each look fine
alone - not ones that ordinary use would expose at once. The {n} changes should be in different places / of different kinds
and should break different properties if the angle allows.

Changes already written (write something DIFFERENT from all of these - different site or different mechanism):
{chr(10).join(old)}

For each change i = 1..{n} produce the directory {wt}/_out/m<i>/ containing
  patch.diff       `git diff` of the change against the worktree's HEAD (src/ only; must apply with `git apply`)
  seeded_demo.rs   an integration test file (it will be copied to tests/seeded_demo.rs; use only the crate's
                   public API and dev-dependencies already in Cargo.toml) that FAILS with the change and PASSES without it
  notes.md         first line `# m<i> - <one-line description of the change>`, then sections
                   `## The change`, `## What it needs to manifest`, `## Commands and results`
  property.txt     the id (e.g. C07) of the property the change breaks most directly
  features.txt     only if the demo needs cargo features (e.g. `json` or `core`): the feature list, one line

Verify each yourself, in the worktree: (a) with the change applied the full suite passes
(`cargo test --workspace --no-fail-fast --offline`: 137 passed + doctests), (b) the demo fails with the change,
(c) the demo passes without it (`git checkout -- .`). Leave the worktree clean (no applied change, no
tests/seeded_demo.rs) when you finish; keep only _out/. Do not commit anything. There is no network.
Report, per change, one line: what it is and what it needs to manifest. If you find what looks like a genuine
defect of the unchanged code while probing (a property already fails without any change), say so separately with
the failing input.""")
