#!/usr/bin/env python3
"""Show the replay files of a property compactly: rule text, the judged documents, what was observed."""
import json, os, subprocess, sys
V = os.path.dirname(os.path.dirname(os.path.abspath(__file__)))
prop = sys.argv[1]
limit = int(sys.argv[2]) if len(sys.argv) > 2 else 100
d = os.path.join(V, "replays", prop)
tvh = os.path.join(V, "harness/target/release/tvh")
for fn in sorted(os.listdir(d))[:limit]:
    rec = json.load(open(os.path.join(d, fn)))
    case = rec["case"]
    tmp = "/tmp/triage_case.json"
    json.dump(case, open(tmp, "w"))
    out = subprocess.run([tvh, "one", tmp], stdout=subprocess.PIPE, stderr=subprocess.STDOUT).stdout.decode(errors="replace")
    parts = out.split("--- ")
    rule = [p for p in parts if p.startswith("rule text")]
    docs = {int(p.split(" ")[1]): p for p in parts if p.startswith("doc ")}
    print("=" * 100)
    print(fn, case.get("origin"), case.get("form", ""))
    if rule:
        print(rule[0].replace("rule text ---\n", "").replace("true_positives: []\ntrue_negatives: []\n", "").rstrip())
    else:
        print(out[-800:])
    seen = set()
    for j in rec["judged"]:
        info = j.get("info")
        print("  JUDGED rule=%s info=%s devs=%s" % (j["rule"], json.dumps(info), j.get("devs")))
        if isinstance(info, dict) and "d" in info and info["d"] not in seen and info["d"] in docs:
            seen.add(info["d"])
            print("    " + docs[info["d"]].rstrip().replace("\n", "\n    "))
