#!/usr/bin/env python3
"""seedprompt.py <Cxx> <worktree> [n]: print the brief given to an independent sub-agent that writes
seeded changes for ONE property.  The brief contains the property text and anchors (properties.jsonl),
the worktree path, the output layout and - so that the agent writes something different - the one-line
descriptions of the changes already kept for that property.  Nothing about the checks of /verif."""
import glob
import json
import os
import sys

V = os.path.dirname(os.path.dirname(os.path.abspath(__file__)))
pid, wt = sys.argv[1:3]
n = int(sys.argv[3]) if len(sys.argv) > 3 else 3
prop = [json.loads(l) for l in open(os.path.join(V, "properties.jsonl")) if json.loads(l)["id"] == pid][0]
old = []
for m in sorted(glob.glob(os.path.join(V, "seeded", pid + "-*", "meta.json"))):
    old.append("- " + json.load(open(m)).get("change", "")[:220])
anch = prop.get("anchors", {})
print(f"""You are helping to evaluate a verification effort for the Rust crate tau-engine (WithSecureLabs/tau-engine), a rule engine
that tokenises and Pratt-parses YAML detection rules, optimises the expression tree and evaluates it with
three-valued logic (true / false / missing) against documents.

Your scratch copy of the repository is the git worktree {wt} (work ONLY there; never touch /repo or /verif,
do not read /verif). It builds and tests offline: `cd {wt} && cargo test --workspace --no-fail-fast --offline`
(137 tests + doctests pass). Features `core` and `json` exist and build offline.

The property under study:

  {prop['id']} - {prop['title']}
  {prop['statement']}

  Where it lives: files {', '.join(anch.get('files', []))}
  Mechanisms: {json.dumps(anch.get('mechanism', []))}
  Observable at: {json.dumps(anch.get('observe_at', []))}

TASK: write {n} DIFFERENT realistic changes to tau-engine (src/ only), each of which BREAKS this property while the
crate still compiles and the existing test suite (all 137 tests and the doctests, unedited) still passes. Each
must look like something a maintainer could plausibly commit (a performance shortcut, a refactoring, a
well-meant leniency, a merge of duplicated code, a changed boundary, error handling, a cache ...), not sabotage.
Prefer changes that need something SPECIFIC to manifest - an unusual input, a particular switch combination, a
multi-step sequence of operations, a particular schedule or repetition, two cooperating sites that each look fine
alone - not ones that ordinary use would expose at once. The {n} changes should be in different places / of
different kinds.

Changes already written for this property (write something DIFFERENT from all of these - different site or
different mechanism):
{chr(10).join(old) if old else '- (none)'}

For each change i = 1..{n} produce the directory {wt}/_out/m<i>/ containing
  patch.diff       `git diff` of the change against the worktree's HEAD (src/ only; must apply with `git apply`)
  seeded_demo.rs   an integration test file (it will be copied to tests/seeded_demo.rs; use only the crate's
                   public API and dev-dependencies already in Cargo.toml) that FAILS with the change and PASSES without it
  notes.md         first line `# m<i> - <one-line description of the change>`, then sections
                   `## The change`, `## What it needs to manifest`, `## Commands and results`
  features.txt     only if the demo needs cargo features (e.g. `json` or `core`): the feature list, one line

Verify each yourself, in the worktree: (a) with the change applied the full suite passes
(`cargo test --workspace --no-fail-fast --offline`: 137 passed + doctests), (b) the demo fails with the change,
(c) the demo passes without it (`git checkout -- .`). Leave the worktree clean (no applied change, no
tests/seeded_demo.rs) when you finish; keep only _out/. Do not commit anything. There is no network.
Report, per change, one line: what it is and what it needs to manifest. If you find what looks like a genuine
defect of the unchanged code while probing (the property already fails without any change), say so separately with
the failing input.""")
