#!/bin/sh
# seedbox.sh <box-name> <patch.diff> <command...>: run a command with a seeded change applied, inside a
# private mount namespace in which copies of /repo and /verif replace the real ones (the real /repo is
# never touched).  The box (/var/tmp/<box-name>) is kept for inspection; remove it when done.
box=/var/tmp/$1; patch=$(readlink -f "$2" 2>/dev/null || echo "$2"); shift 2
mkdir -p $box
rsync -a --delete --exclude target /repo/ $box/repo/
rsync -a --delete --exclude work --exclude replays /verif/ $box/verif/
git -C $box/repo checkout -q -- .
# a patch named "none" runs the command on the unchanged tree (an isolated copy for parallel runs)
[ "$(basename "$patch")" = "none" ] || git -C $box/repo apply --whitespace=nowarn "$patch" || exit 2
exec unshare -m sh -c "mount --bind $box/repo /repo && mount --bind $box/verif /verif && cd /verif && $*"
