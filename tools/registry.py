"""Per-property configuration of the checks: which models TLC enumerates, which seeded generators
run, and which judging clauses of TraceTau count as a violation of the property."""

DEV_CURRENT = '{"quant_partial_batch"}'


def q(tier, quick, thorough):
    return quick if tier == "quick" else thorough


PROPS = {}

PROPS["C06"] = {
    "title": "Three-valued connectives obey their truth tables",
    "models": lambda tier: [
        {"module": "MC_Tri",
         "constants": {"MaxK": q(tier, 3, 5), "Dev": DEV_CURRENT},
         "invariants": ["EngInAdm", "LangIsAdm", "Lifted", "Emit"],
         "forms": ["and_chain", "or_chain", "map_group", "seq_group", "not1", "all_seq", "of_seq",
                   "all_map", "of_map", "klist", "kall", "kof", "klist_mix", "kall_mix", "kof_mix", "knot"],
         "workers": q(tier, 4, 8)},
    ],
    "gens": lambda tier: [],
    "rules": ["tri_oracle", "tri_both", "oracle", "match_panic", "load_outcome", "load_panic"],
    "chunk": 2000,
}

# texts for MANIFEST.json
MANIFEST_TEXT = {}
MANIFEST_TEXT["C06"] = {
    "level": "Exhaustive within the bound: TLC enumerates every connective form (binary chains, mapping/sequence groups, not, all()/of() over identifiers, plain/all()/of() key lists, batched and mixed) x arity 1..3 (thorough 1..5) x every {T,F,M} vector x every threshold, checks the solver-loop model against the truth tables (TauTri), and each enumerated case is replayed through Rule::matches (three-valued result observed via the rule and its negation) and the recorded trace is validated by TLC against the language-layer semantics. Complete for the stated arities; larger arities are not covered.",
    "note": "Trusts TLC, the Json module, serde_yaml rendering, and the engine's own `not` for three-valued observation (itself one of the enumerated forms). Bounded arity.",
    "technique": "TLA+ spec + TLC model checking; TLC-enumerated cases replayed into the engine; recorded traces validated by TLC (TraceTau)",
}

PROPS["C02"] = {
    "title": "Verdicts follow the documented rule language",
    "models": lambda tier: [],
    "gens": lambda tier: [{"topic": "lang", "n": q(tier, 1500, 30000)}],
    "rules": ["oracle", "tri_oracle", "tri_both", "load_outcome", "load_panic", "match_panic"],
    "chunk": 1500,
}
MANIFEST_TEXT["C02"] = {
    "level": "todo",
    "note": "todo",
    "technique": "TLA+ language-layer semantics (TauLang) evaluated by TLC on traces recorded from the engine",
}

DEV_COND = '{}'
PROPS["C05"] = {
    "title": "Condition grammar: fixed precedence, associativity and parentheses",
    "models": lambda tier: [
        {"module": "MC_Cond",
         "constants": {"MaxLen": q(tier, 5, 6), "EmitRejLen": q(tier, 3, 4), "Wide": "FALSE", "Dev": DEV_COND},
         "invariants": ["PrattIsRef", "RoundTrip", "Emit"],
         "forms": ["accepted", "rejected"], "workers": 8},
    ],
    "gens": lambda tier: [],
    "rules": ["oracle", "load_outcome", "load_panic", "match_panic"],
    "chunk": 400,
}
MANIFEST_TEXT["C05"] = {"level": "todo", "note": "todo", "technique": "TLA+ reference grammar vs Pratt model, TLC; replay + trace validation"}

PROPS["C01"] = {
    "title": "Optimisation never changes a verdict",
    "models": lambda tier: [],
    "gens": lambda tier: [{"topic": "opt", "n": q(tier, 600, 12000)}],
    "rules": ["den", "opt_panic", "match_panic"],
    "chunk": 300,
}
MANIFEST_TEXT["C01"] = {"level": "todo", "note": "todo", "technique": "TLA+ life-cycle spec (TauRule): denotation bound at first observation; traces of all 17 switch states validated by TLC"}

PROPS["C03"] = {
    "title": "An accepted rule can always be evaluated (no panic after load)",
    "models": lambda tier: [
        {"module": "MC_Cond",
         "constants": {"MaxLen": q(tier, 3, 4), "EmitRejLen": q(tier, 3, 4), "Wide": "TRUE", "Dev": DEV_COND},
         "invariants": ["PrattIsRef", "RoundTrip", "Emit"],
         "forms": ["accepted", "rejected"], "workers": 8,
         "plan": {"tri": False, "sws": q(tier, "SOME", "ALL"), "adv": q(tier, 6, 16), "validate": True}},
    ],
    "gens": lambda tier: [{"topic": "adv", "n": q(tier, 120, 3000)}],
    "rules": ["load_outcome", "load_panic", "opt_panic", "match_panic", "validate_panic", "ser_panic"],
    "chunk": 100,
}
MANIFEST_TEXT["C03"] = {"level": "todo", "note": "todo", "technique": "TLA+ condition grammar model (MC_Cond) + TauRule; replay with adversarial documents; TLC trace validation"}

PROPS["C12"] = {
    "title": "Loading, optimising and matching are deterministic and pure",
    "models": lambda tier: [],
    "gens": lambda tier: [{"topic": "pure", "n": q(tier, 400, 8000)}],
    "rules": ["den", "print_differs", "opt_panic", "match_panic"],
    "chunk": 300,
}
MANIFEST_TEXT["C12"] = {"level": "todo", "note": "todo", "technique": "TLA+ life-cycle spec; repeated/threaded traces validated by TLC"}

PROPS["C13"] = {
    "title": "validate() agrees with matches() on the rule's own examples",
    "models": lambda tier: [],
    "gens": lambda tier: [{"topic": "val", "n": q(tier, 800, 15000)}],
    "rules": ["validate", "validate_panic", "validate_unbound"],
    "chunk": 500,
}
MANIFEST_TEXT["C13"] = {"level": "todo", "note": "todo", "technique": "TLA+ Validate action defined from the bound denotation; TLC trace validation"}

PROPS["C14"] = {
    "title": "Rule serialisation round-trips",
    "models": lambda tier: [],
    "gens": lambda tier: [{"topic": "ser", "n": q(tier, 600, 12000)}],
    "rules": ["den", "ser_panic", "ser_error", "reload_fails", "reload_differs", "load_paths_differ", "load_panic"],
    "chunk": 400,
}
MANIFEST_TEXT["C14"] = {"level": "todo", "note": "todo", "technique": "TLA+ Serialise/Reload actions; TLC trace validation"}

PROPS["C11"] = {
    "title": "Verdict is independent of how the document is represented",
    "models": lambda tier: [],
    "gens": lambda tier: [{"topic": "repr", "n": q(tier, 600, 12000)}],
    "rules": ["den", "match_panic"],
    "chunk": 300,
}
MANIFEST_TEXT["C11"] = {"level": "todo", "note": "todo", "technique": "TLA+ life-cycle spec: one denotation per (rule, abstract document); TLC trace validation over 8 representations"}

PROPS["C04"] = {
    "title": "Loading arbitrary text returns a rule or an error, never a panic",
    "models": lambda tier: [
        {"module": "MC_Tok", "constants": {"MaxLen": q(tier, 3, 4)},
         "invariants": ["InRange", "AgreesWithScan"], "props": ["Progress", "Terminates"],
         "no_cases": True, "workers": 8},
        {"module": "MC_Ident", "constants": {"MaxLen": q(tier, 3, 4), "Dev": "{}", "IcBuild": "FALSE"},
         "invariants": ["NoPanic", "WriteRead", "Emit"], "forms": ["ok", "err", "unk"], "workers": 8},
    ],
    "gens": lambda tier: [{"topic": "fuzz", "n": q(tier, 3000, 60000)}],
    "rules": ["load_panic", "ident_panic"],
    "chunk": 3000,
}
MANIFEST_TEXT["C04"] = {"level": "todo", "note": "todo", "technique": "TLA+ step-machine models of the tokeniser and of pattern parsing (progress, index safety, termination) checked by TLC; exhaustive short strings and seeded fuzz replayed; traces validated by TLC"}

PROPS["C07"] = {
    "title": "String predicates are exact for all strings, single or batched",
    "models": lambda tier: [
        {"module": "MC_Str",
         "constants": {"MaxNeedle": 2, "MaxHay": q(tier, 3, 4), "PairNeedle": q(tier, 1, 1), "PairHay": q(tier, 2, 3)},
         "invariants": ["SingleOk", "BatchOk", "RewriteOk", "Emit"], "forms": ["single", "pair"], "workers": 8},
        {"module": "MC_Ident", "constants": {"MaxLen": q(tier, 3, 4), "Dev": "{}", "IcBuild": "FALSE"},
         "invariants": ["NoPanic", "WriteRead", "Emit"], "forms": ["ok", "err", "unk"], "workers": 8},
    ],
    "gens": lambda tier: [{"topic": "str", "n": q(tier, 600, 12000)}],
    "rules": ["oracle", "ident_parse", "ident_panic", "load_outcome", "match_panic"],
    "chunk": 1000,
}
MANIFEST_TEXT["C07"] = {"level": "todo", "note": "todo", "technique": "TLA+ string relations and Aho-Corasick hit-set model (TauStr), TLC; exhaustive small alphabets replayed; TLC trace validation"}

PROPS["C09"] = {
    "title": "Numeric comparisons and casts are order-correct and overflow-safe",
    "models": lambda tier: [
        {"module": "MC_Num", "constants": {},
         "invariants": ["Trichotomy", "Unions", "NaNFalse", "EngSound", "Emit"],
         "forms": ["key", "intkey", "fltkey", "strkey", "cond_int", "cond_int_rev", "cond_flt", "cond_flt_rev",
                   "cond_int_fields", "cond_flt_fields", "cond_str_fields"], "workers": 8},
    ],
    "gens": lambda tier: [{"topic": "num", "n": q(tier, 500, 20000)}],
    "rules": ["oracle", "tri_oracle", "tri_both", "match_panic", "load_outcome"],
    "chunk": 150,
}
MANIFEST_TEXT["C09"] = {"level": "todo", "note": "todo", "technique": "TLA+ exact digit-sequence arithmetic (TauNum) checked by TLC; boundary universe replayed; TLC trace validation incl. random 64-bit values"}

DEV_PATH = '{}'
PROPS["C10"] = {
    "title": "Field paths resolve to exactly the addressed value",
    "models": lambda tier: [
        {"module": "MC_Path", "constants": {"Depth": q(tier, 1, 2), "PathLen": q(tier, 3, 2), "Dev": DEV_PATH},
         "invariants": ["WalkIsFind", "IdealWalkIsFind", "Emit"], "forms": ["doc"], "workers": 8},
    ],
    "gens": lambda tier: [{"topic": "path", "n": q(tier, 500, 10000)}],
    "rules": ["find_value", "find_panic", "oracle", "tri_oracle", "match_panic"],
    "chunk": 400,
}
MANIFEST_TEXT["C10"] = {"level": "todo", "note": "todo", "technique": "TLA+ Find (descent) vs the engine's cursor walk (TauDoc), TLC; every document shape x path replayed on four representations; TLC trace validation"}

PROPS["C08"] = {
    "title": "List quantifiers count the members the author wrote",
    "models": lambda tier: [
        {"module": "MC_Quant", "constants": {"MaxK": q(tier, 3, 5)},
         "invariants": ["CountLaw", "Emit"],
         "forms": ["key_plain", "key_all", "key_of", "seq_all", "seq_of", "idl_all", "idl_of"], "workers": 8},
    ],
    "gens": lambda tier: [{"topic": "quant", "n": q(tier, 500, 10000)}],
    "rules": ["oracle", "den", "alt_fails", "load_outcome", "match_panic"],
    "chunk": 500,
}
MANIFEST_TEXT["C08"] = {"level": "todo", "note": "todo", "technique": "TLA+ count semantics (TauLang) and the law quantified = explicit form, TLC; both forms replayed as one case with one denotation; TLC trace validation"}
