"""Per-property configuration of the checks: which models TLC enumerates, which seeded generators
run, and which judging clauses of TraceTau count as a violation of the property."""

DEV_CURRENT = '{"quant_partial_batch"}'


def q(tier, quick, thorough):
    return quick if tier == "quick" else thorough


PROPS = {}

# streaming fold machines: TLC binds them to the recursive folds, Apalache proves the invariant inductive
FOLD_TLC = lambda tier: {"module": "MC_Fold", "spec": "MCSpec", "constants": {"MaxK": q(tier, 6, 9)},
                         "invariants": ["Agree", "Inductive"], "no_cases": True}
FOLD_APALACHE = {"module": "TauFold", "apalache": [{"init": "Init", "inv": "IndInv", "length": 0},
                                                   {"init": "IndInit", "inv": "IndInv", "length": 1}]}

PROPS["C06"] = {
    "title": "Three-valued connectives obey their truth tables",
    "models": lambda tier: [
        {"module": "MC_Tri",
         "constants": {"MaxK": q(tier, 3, 5), "Dev": DEV_CURRENT, "EmitAlts": "FALSE"},
         "invariants": ["EngInAdm", "LangIsAdm", "Lifted", "OrderFree", "LangOrderFree", "Emit"],
         "forms": ["and_chain", "or_chain", "map_group", "seq_group", "not1", "all_seq", "of_seq",
                   "all_map", "of_map", "klist", "kall", "kof", "klist_mix", "kall_mix", "kof_mix", "knot", "mx_not", "nest_and",
                   "nall_seq", "nof_seq", "nall_map", "nof_map", "seq_same", "or_same", "and_same", "of_same", "not_cmp"],
         "workers": q(tier, 4, 8)},
        FOLD_TLC(tier),
    ] + ([FOLD_APALACHE] if tier == "thorough" else []),
    "gens": lambda tier: [],
    "rules": ["tri_oracle", "tri_both", "oracle", "match_panic", "load_outcome", "load_panic"],
    "chunk": 2000,
}


# the textual layer of mapping KEYS: every concatenation of <= n pieces (spec/TauKeyText.tla)
MC_KEY = lambda n: {"module": "MC_Key", "constants": {"MaxLen": n, "Dev": '{"key_whitespace"}'},
                    "invariants": ["EngInRef", "Written", "ScalarStricter", "Emit"],
                    "forms": ["open", "pinned", "pinned_ws", "pinned_q"], "workers": 8}

MC_TYPE = lambda tier: {"module": "MC_Type", "constants": {"MaxList": q(tier, 2, 3)},
                        "invariants": ["QuantStricter", "CastStricter", "NullNeutral", "Emit"],
                        "forms": ["loads", "rejected"], "workers": 4}

PROPS["C02"] = {
    "title": "Verdicts follow the documented rule language",
    "models": lambda tier: [MC_TYPE(tier), MC_KEY(q(tier, 3, 4))],
    "gens": lambda tier: [{"topic": "keys", "n": q(tier, 1500, 20000)}, {"topic": "lang", "n": q(tier, 1500, 30000)}, {"topic": "str", "n": q(tier, 300, 6000)},
                          {"topic": "quant", "n": q(tier, 200, 4000)}, {"topic": "num", "n": q(tier, 400, 6000)},
                          {"topic": "path", "n": q(tier, 150, 3000)}, {"topic": "typ", "n": q(tier, 400, 8000)}],
    "rules": ["oracle", "tri_oracle", "tri_both", "load_outcome", "load_panic", "match_panic", "key_parse", "key_panic"],
    "chunk": 1500,
}

DEV_COND = '{}'
PROPS["C05"] = {
    "title": "Condition grammar: fixed precedence, associativity and parentheses",
    "models": lambda tier: [
        {"module": "MC_Cond",
         "constants": {"MaxLen": q(tier, 5, 6), "EmitRejLen": q(tier, 4, 5), "Wide": "FALSE", "Dev": DEV_COND},
         "invariants": ["PrattIsRef", "RoundTrip", "Emit"],
         "forms": ["accepted", "rejected"], "workers": 8},
    ],
    "gens": lambda tier: [{"topic": "cond", "n": q(tier, 1500, 30000)}, {"topic": "condfuzz", "n": q(tier, 1000, 20000)}],
    "rules": ["oracle", "load_outcome", "load_panic", "match_panic", "ref_tree"],
    "chunk": 500,
}

PROPS["C01"] = {
    "title": "Optimisation never changes a verdict",
    "models": lambda tier: [
        {"module": "MC_Opt", "constants": {"Small": q(tier, "TRUE", "FALSE"), "Universe": '"A"'},
         "invariants": ["NoPanic", "DenStable", "EngInLang", "Emit"], "forms": ["mc_opt"], "workers": 12},
        {"module": "MC_Opt", "constants": {"Small": q(tier, "TRUE", "FALSE"), "Universe": '"B"'},
         "invariants": ["NoPanic", "DenStable", "EngInLang", "Emit"], "forms": ["mc_opt"], "workers": 12},
    ],
    "gens": lambda tier: [{"topic": "opt", "n": q(tier, 700, 12000)}, {"topic": "big", "n": q(tier, 4, 16)},
                          {"topic": "samef", "n": q(tier, 150, 3000)}],
    "rules": ["den", "opt_panic", "match_panic", "reopt_differs"],
    "chunk": 300,
}

PROPS["C03"] = {
    "title": "An accepted rule can always be evaluated (no panic after load)",
    "models": lambda tier: [
        {"module": "MC_Cond",
         "constants": {"MaxLen": q(tier, 3, 4), "EmitRejLen": q(tier, 3, 3), "Wide": "TRUE", "Dev": DEV_COND},
         "invariants": ["PrattIsRef", "RoundTrip", "Emit"],
         "forms": ["accepted", "rejected"], "workers": 8,
         "plan": {"tri": False, "sws": q(tier, "SOME", "ALL"), "adv": q(tier, 6, 16), "validate": True}},
    ],
    "gens": lambda tier: [{"topic": "adv", "n": q(tier, 120, 3000)}, {"topic": "big", "n": q(tier, 4, 16)},
                          {"topic": "typ", "n": q(tier, 300, 6000)}, {"topic": "condfuzz", "n": q(tier, 800, 15000)},
                          {"topic": "samef", "n": q(tier, 60, 1200)}],
    "rules": ["load_outcome", "load_panic", "opt_panic", "match_panic", "validate_panic", "ser_panic"],
    "chunk": 1500,
}

# the life-cycle machine explored on its own: every schedule of API calls within the bound, each
# transition of the abstract state graph replayed call by call (runner `sched`)
LIFE = lambda tier, sws_q, sws_t, cases_q="{1, 2, 3, 4}": {
    "module": "MC_Life",
    "constants": {"MaxObj": q(tier, 2, 3), "MaxSteps": q(tier, 4, 5), "SwIdx": q(tier, sws_q, sws_t),
                  "CaseIdx": q(tier, cases_q, "{1, 2, 3, 4}")},
    "invariants": ["EmitDefs", "DenSound", "ValidateLaw", "ReloadPlain", "OnceOnly", "SwBlind", "Bounded"],
    "props": ["Pure"], "view": "View", "forms": ["life"], "workers": 8}

PROPS["C12"] = {
    "title": "Loading, optimising and matching are deterministic and pure",
    "models": lambda tier: [LIFE(tier, "{1, 2}", "{1, 2, 3}", "{1, 3}")],
    "second_process": "reverse",
    "gens": lambda tier: [{"topic": "pure", "n": q(tier, 400, 8000)}, {"topic": "bigq", "n": q(tier, 8, 60)},
                          {"topic": "bigp", "n": q(tier, 3, 6)}],
    "rules": ["den", "print_differs", "opt_panic", "match_panic", "reopt_differs", "load_paths_differ"],
    "chunk": 60,
}

PROPS["C13"] = {
    "title": "validate() agrees with matches() on the rule's own examples",
    "models": lambda tier: [LIFE(tier, "{1, 4}", "{1, 2, 4}")],
    "gens": lambda tier: [{"topic": "val", "n": q(tier, 800, 15000)}],
    "rules": ["validate", "validate_panic", "validate_unbound"],
    "chunk": 500,
}

PROPS["C14"] = {
    "title": "Rule serialisation round-trips",
    "models": lambda tier: [LIFE(tier, "{1, 3}", "{1, 3, 5}")],
    "gens": lambda tier: [{"topic": "ser", "n": q(tier, 600, 12000)}],
    "rules": ["den", "ser_panic", "ser_error", "reload_fails", "reload_differs", "load_paths_differ", "load_panic", "match_panic"],
    "chunk": 400,
}

PROPS["C11"] = {
    "title": "Verdict is independent of how the document is represented",
    "models": lambda tier: [],
    "gens": lambda tier: [{"topic": "repr", "n": q(tier, 600, 12000)}],
    "rules": ["den", "match_panic"],
    "chunk": 300,
}

PROPS["C04"] = {
    "title": "Loading arbitrary text returns a rule or an error, never a panic",
    "models": lambda tier: [
        {"module": "MC_Tok", "constants": {"MaxLen": q(tier, 3, 4)},
         "invariants": ["InRange", "AgreesWithScan"], "props": ["Progress", "Terminates"],
         "no_cases": True, "workers": 8},
        {"module": "MC_Ident", "constants": {"MaxLen": q(tier, 3, 4), "Dev": "{}", "IcBuild": "FALSE"},
         "invariants": ["NoPanic", "WriteRead", "Emit"], "forms": ["ok", "err", "unk"], "workers": 8},
        MC_KEY(q(tier, 3, 4)),
    ],
    "gens": lambda tier: [{"topic": "fuzz", "n": q(tier, 3000, 60000)}, {"topic": "typ", "n": q(tier, 400, 8000)},
                          {"topic": "keys", "n": q(tier, 3000, 40000)}],
    "rules": ["load_panic", "ident_panic", "key_panic"],
    "chunk": 3000,
}

PROPS["C07"] = {
    "title": "String predicates are exact for all strings, single or batched",
    "models": lambda tier: [
        {"module": "MC_Str",
         "constants": {"MaxNeedle": 2, "MaxHay": q(tier, 3, 4), "PairNeedle": q(tier, 1, 1), "PairHay": q(tier, 2, 3)},
         "invariants": ["SingleOk", "BatchOk", "RewriteOk", "Emit"], "forms": ["single", "pair"], "workers": 8},
        {"module": "MC_Ident", "constants": {"MaxLen": q(tier, 3, 4), "Dev": "{}", "IcBuild": "FALSE"},
         "invariants": ["NoPanic", "WriteRead", "Emit"], "forms": ["ok", "err", "unk"], "workers": 8},
    ],
    "gens": lambda tier: [{"topic": "str", "n": q(tier, 600, 12000)}],
    "rules": ["oracle", "ident_parse", "ident_panic", "load_outcome", "match_panic"],
    "chunk": 1000,
}

PROPS["C09"] = {
    "title": "Numeric comparisons and casts are order-correct and overflow-safe",
    "models": lambda tier: [
        {"module": "MC_Num", "constants": {},
         "invariants": ["Trichotomy", "Unions", "NaNFalse", "EngSound", "Emit"],
         "forms": ["key", "intkey", "fltkey", "strkey", "cond_int", "cond_int_rev", "cond_flt", "cond_flt_rev",
                   "cond_int_fields", "cond_flt_fields", "cond_str_fields"], "workers": 8},
    ],
    "gens": lambda tier: [{"topic": "num", "n": q(tier, 500, 20000)}, {"topic": "typ", "n": q(tier, 300, 6000)},
                          {"topic": "identfuzz", "n": q(tier, 1500, 20000)}],
    "rules": ["oracle", "tri_oracle", "tri_both", "match_panic", "load_outcome", "ident_parse", "ident_panic"],
    "chunk": 150,
}

DEV_PATH = '{}'
PROPS["C10"] = {
    "title": "Field paths resolve to exactly the addressed value",
    "models": lambda tier: [
        {"module": "MC_Path", "constants": {"Depth": q(tier, 1, 2), "PathLen": q(tier, 3, 2), "Dev": DEV_PATH},
         "invariants": ["WalkIsFind", "IdealWalkIsFind", "EmptySegMissing", "BadIndexMissing", "Emit"], "forms": ["doc"], "workers": 8},
        {"module": "MC_Nest", "constants": {"MaxArr": q(tier, 2, 3)},
         "invariants": ["DottedLaw", "ArrayLaw", "Emit"], "forms": ["nested_obj", "nested_arr"], "workers": 4},
    ],
    "gens": lambda tier: [{"topic": "path", "n": q(tier, 500, 10000)}, {"topic": "nm", "n": q(tier, 100, 1500)}],
    "rules": ["find_value", "find_panic", "oracle", "tri_oracle", "match_panic"],
    "chunk": 400,
}

PROPS["C08"] = {
    "title": "List quantifiers count the members the author wrote",
    "models": lambda tier: [
        {"module": "MC_Quant", "constants": {"MaxK": q(tier, 3, 5)},
         "invariants": ["CountLaw", "PinnedEnough", "Emit"],
         "forms": ["key_plain", "key_all", "key_of", "seq_all", "seq_of", "idl_all", "idl_of", "seqm_all", "seqm_of"], "workers": 8},
    ],
    "gens": lambda tier: [{"topic": "quant", "n": q(tier, 500, 10000)}, {"topic": "bigc", "n": q(tier, 12, 100)},
                          {"topic": "samefq", "n": q(tier, 300, 6000)}],
    "rules": ["oracle", "den", "alt_fails", "load_outcome", "match_panic"],
    "chunk": 500,
}

PROPS["C17"] = {
    "title": "Order of operands never decides whether and/or is true",
    "models": lambda tier: [
        {"module": "MC_Tri",
         "constants": {"MaxK": q(tier, 3, 4), "Dev": DEV_CURRENT, "EmitAlts": "TRUE"},
         "invariants": ["OrderFree", "LangOrderFree", "Emit"],
         "forms": ["and_chain", "or_chain", "map_group", "seq_group", "all_seq", "of_seq", "klist", "kall", "kof"],
         "workers": q(tier, 4, 8)},
        FOLD_TLC(tier),
    ] + ([FOLD_APALACHE] if tier == "thorough" else []),
    "gens": lambda tier: [{"topic": "perm", "n": q(tier, 600, 12000)}],
    "rules": ["den", "alt_fails", "match_panic"],
    "chunk": 500,
}

PROPS["C16"] = {
    "title": "Matching reads only the fields the rule names",
    "models": lambda tier: [MC_KEY(4)],
    "gens": lambda tier: [{"topic": "find", "n": q(tier, 300, 6000)}, {"topic": "keys", "n": q(tier, 3000, 40000)}],
    "rules": ["find_key", "den", "match_panic", "key_parse", "key_fabricated", "key_panic"],
    "chunk": 150,
}

PROPS["C15"] = {
    "title": "ignore_case build equals default build with every pattern i-prefixed",
    "needs_ic": True,
    "models": lambda tier: [
        {"module": "MC_Ident", "constants": {"MaxLen": q(tier, 3, 4), "Dev": "{}", "IcBuild": "TRUE"},
         "invariants": ["NoPanic", "WriteRead"], "no_cases": True, "workers": 8},
        # the same strings, executed by BOTH harness builds: the trace specification judges each
        # into_identifier result with the build that produced it (event field `build`)
        {"module": "MC_Ident", "constants": {"MaxLen": q(tier, 3, 3), "Dev": "{}", "IcBuild": "FALSE"},
         "invariants": ["Emit"], "forms": ["ok", "err", "unk"], "workers": 8},
    ],
    "gens": lambda tier: [{"topic": "ic+lang", "n": q(tier, 500, 10000)}, {"topic": "ic+str", "n": q(tier, 300, 6000)}],
    "rules": ["den", "oracle", "ic_load_differs", "load_panic", "match_panic", "ident_parse", "ident_panic"],
    "chunk": 400,
}


# ------------------------------------------------------------------------------------------
# texts for MANIFEST.json
COMMON_NOTE = ("Trusted: TLC, the CommunityModules Json/IOUtils, serde_yaml/serde_json as renderers, the harness's "
               "mechanical JSON->YAML rendering. Bounded: exhaustive only within the constants recorded in the evidence; "
               "seeded random cases beyond. Known findings (known_findings.json) are attributed only when a syntactic trigger "
               "evaluated in TLA+ (spec/TauKnown.tla) holds AND the engine-layer model (spec/TauEngine.tla, TauOpt.tla) "
               "predicts the observed result; anything else is reported. ")
T = "explicit TLA+ specification checked with TLC; TLC-enumerated cases and seeded random cases replayed through the engine; recorded API traces validated against the specification by TLC (TraceTau)"
T_FOLD = T + "; inductive invariant of the streaming fold machines (TauFold) discharged by Apalache in the thorough tier"
MANIFEST_TEXT = {
 "C01": {"level": "Trace validation of the life-cycle machine (spec/TauRule.tla): for seeded random rules (depth 3, up to 4 identifiers, lists, nested blocks, casts, quantifiers) every one of the 17 switch states is a separate object of one case whose denotation is bound by the first observation; TLC rejects any later verdict that differs and any optimise() that panics. Documents are generated in three modes (negation-free rules; documents on which every predicate is definite; unrestricted) so that most comparisons are strict; comparisons on indefinite documents under a negation are attributed to the recorded known findings about operand reordering. A fifth of the cases also call optimise() a second time with other switches (spec action ReOptimise: the identity). The optimiser IS transcribed pass by pass (spec/TauOpt.tla): TLC checks NoPanic / DenStable / EngInLang on a bounded universe (MC_Opt) and the transcription's prediction is compared with every recorded observation (model_drift, zero so far); it is never the judge, only the explanation of known findings. Random exploration beyond the MC_Opt universe, not exhaustive. Further source family `samef`: 3-5 predicates on ONE field written as separate entries (sequence of one-key mappings, or-ed / and-ed identifiers), singles and short lists of mixed kinds, with per-member documents, anchored words away from their anchor and arrays whose elements satisfy different members, under all 17 switch states.",
         "note": COMMON_NOTE + "Needs no oracle (self-consistency); the language-layer oracle is evaluated as well but not counted here.", "technique": T},
 "C02": {"level": "The language layer spec/TauLang.tla (mapping = conjunction in written order, sequence = disjunction, pattern kinds, numbers, casts, quantifiers, nested mappings, three-valued condition) is evaluated by TLC on every recorded (rule, document) pair: the engine's verdict and three-valued result must lie in the admissible set. Seeded random rules and rule-directed documents (1.5k quick / 30k thorough cases); results the documentation leaves open are admissible sets, not guesses. Which rules are VALID is specified too: spec/TauType.tla (the static semantics of identifier bodies: key modifier x value kind, lists, nesting) decides the load outcome of every rule of an exhaustive small universe (MC_Type: 854 / 7,854 rules, with TLC-checked laws) and of 400 / 8k random well- and ill-typed bodies. The textual layer of mapping KEYS is specified too (spec/TauKeyText.tla: engine layer = condition tokeniser, identifier runs re-joined with one blank, Pratt parse, classification of the root; language layer = the documented key forms NAME, int()/flt()/str()/not()/all()(NAME), of(NAME, N) with their meaning pinned): MC_Key enumerates every concatenation of up to 3 (thorough 4; C16: 4) of 16 pieces (69,905 texts at 4), TLC checks EngInRef / Written / ScalarStricter, every text is put through parse_identifier as {key: 7} and {key: [7, 8]} and TraceTau!TrKey judges modifier, count and field name; plus seeded random key texts (padding, odd white space, keyword-shaped words, indexed and dotted names, counts at the limits, bracket soups).",
         "note": COMMON_NOTE + "Oracle is sound only inside the rule shapes the generators produce (well typed by construction); float text beyond 15 significant digits and non-decimal numeric strings are left open.", "technique": T},
 "C03": {"level": "TLC enumerates every condition over identifiers, and/or/not, parentheses, all()/of(), casts, numbers and comparison operators up to 3 (thorough 4) alphabet elements, checks the Pratt model against the reference grammar (operands of and/or/not are predicates, identifiers exist), and each string is loaded for real: what the grammar rejects must be rejected, and every accepted rule is optimised under 6 (thorough 17) switch states, matched against adversarial documents (every value kind incl. 64-bit extremes, NaN, empty and mixed containers) and validated - any panic is a violation. Plus seeded random rules with non-mapping examples, rules at the sizes where indices and bitmaps change representation (129-136 matrix columns, 63-70 list members), well- and ill-typed bodies (what TauType says loads must load and is then evaluated on values of every kind), and random condition texts whose load outcome the grammar model decides. Keys with stray brackets (`a]b[0]`, `arr[[0]]`) are matched, not only loaded; condition texts are loaded again with one identifier block missing; same-field entry families (`samef`).",
         "note": COMMON_NOTE + "Panics are observed with catch_unwind in a release build with overflow checks and debug assertions on.", "technique": T},
 "C04": {"level": "Model: the condition scanner as a TLA+ step machine over all strings of length <= 3 (thorough 4) over 28 character classes (progress, position in range, termination under weak fairness, agreement with the recursive definition); the pattern-text cascade over all strings <= 3 (thorough 4) over the 13 characters with a syntactic role (no slice out of range, write/read law). Conformance: every enumerated pattern string and 3k (thorough 60k) fuzz cases (token soups, pattern soups, YAML shapes in every position, mutated repository rule files, nesting to depth 64, numerals at the 64-bit and f64 boundaries, comparisons exactly at the ends of the i64 range, regexes with large compiled programs alone and in lists, non-ASCII numerics after ASCII digits, NaN and infinity constants) are loaded through from_str, from_value and the core entry points under a watchdog; outcome must be ok or err - never a panic, never a call that does not return - and for modelled inputs the outcome/kind/argument the specification predicts. The textual layer of mapping KEYS is specified too (spec/TauKeyText.tla: engine layer = condition tokeniser, identifier runs re-joined with one blank, Pratt parse, classification of the root; language layer = the documented key forms NAME, int()/flt()/str()/not()/all()(NAME), of(NAME, N) with their meaning pinned): MC_Key enumerates every concatenation of up to 3 (thorough 4; C16: 4) of 16 pieces (69,905 texts at 4), TLC checks EngInRef / Written / ScalarStricter, every text is put through parse_identifier as {key: 7} and {key: [7, 8]} and TraceTau!TrKey judges totality (key_panic: a panic or a call that does not return); plus seeded random key texts (padding, odd white space, keyword-shaped words, indexed and dotted names, counts at the limits, bracket soups).",
         "note": COMMON_NOTE + "Says nothing about serde_yaml's own parser beyond not panicking on the fuzzed inputs; stack exhaustion beyond depth 64 is out of scope.", "technique": T},
 "C05": {"level": "Exhaustive within the bound: every token string of length <= 5 (thorough 6: 299,593 strings) over {A,B,C,and,or,not,(,)} is parsed by the TLA+ Pratt model and by the reference grammar (TLC checks they agree and that text rendering tokenises back); every accepted string and every rejected one of up to 4 (5) tokens is loaded for real and matched under all {T,F,M} assignments of its identifiers; load outcome and every verdict must be what the reference parse yields.",
         "note": COMMON_NOTE + "Beyond the exhaustive bound: random condition trees (cast comparisons with parenthesised operands, identifier names in which keyword letters are followed by _ . # [ ]) re-spaced and re-parenthesised, read back by the reference grammar; random token soups whose load outcome the grammar model decides.", "technique": T},
 "C06": {"level": "Exhaustive within the bound: TLC enumerates every connective form (binary chains, mapping/sequence groups, not, all()/of() over identifiers, plain/all()/of()/not() key lists, batched and mixed) x arity 1..3 (thorough 1..5) x every {T,F,M} vector x every threshold, checks the solver-loop model against the truth tables and their set-lifted forms, and each case is replayed through Rule::matches (three-valued result observed via the rule and its negation; also optimised) and validated by TLC against the language layer. The non-true values of all()/of() are pinned by the same rules as and/or (DESIGN 4.1). Unbounded part (thorough tier): the group loops as streaming machines (spec/TauFold.tla) satisfy 'loop value = closed form of the table on the operands so far' as an inductive invariant discharged by Apalache for every arity and threshold; MC_Fold (TLC) ties the streaming machines to the recursive folds that the replay binds to solver.rs. Further forms: every operand on ONE field (a number) under str() casts, numeric equality and an un-cast text pattern (seq/or/and/of); a negated ordering comparison against a value that is smaller, absent or not convertible (`not A`, `not (int(f) > 1)`, `not(f): '>1'`), all also optimised.",
         "note": COMMON_NOTE + "Three-valued results are observed through the engine's own `not`, itself one of the enumerated forms.", "technique": T_FOLD},
 "C07": {"level": "Exhaustive within the bound: alphabet {a,b,A}, needles <= 2, haystacks <= 3 (thorough 4), kinds exact/prefix/suffix/contains/any and 11 regex shapes, with and without the i flag; all singles and all ordered pairs with needles <= 1: TLC checks the hit-set model of the batched automaton against the documented relations, every case is replayed (also optimised) and validated. Pattern syntax itself (what 'x*', '*x', quotes, i mean) is checked on every string <= 3 (4) over the 13 syntax characters via into_identifier. Seeded: long and multi-byte strings, lists of 1-5 patterns, arrays.",
         "note": COMMON_NOTE + "Regexes outside the modelled sub-language (literals, ., .*, .*?, ^, $, Perl classes, bracket sets, + ? *) are not given a semantic oracle.", "technique": T},
 "C08": {"level": "TLC enumerates lists of 1..3 (thorough 5) members x seven member families (batched strings, mixed batch classes, case-mixed, numbers, booleans, nested mappings, regexes that become equal once their '.*' is stripped) x nine quantifier forms (key list, sequence, identifier list, sequence of matrix-shaped mappings) x thresholds 0..k+1 x complete and partial documents, checks the law 'quantified form = explicit form' in the language layer, and replays both writings as ONE case, not optimised and under optimised switch sets: TLC requires a single denotation per switch class and the count semantics. Seeded: lists up to 6 with subset expansion of of(n), identifiers written as one multi-key mapping, overlapping needles, arrays with repeated matches and with non-text elements, lists of 63-70 members with repeated occurrences. Same-field entries under all(A) / of(A, n) and as key-level lists, with repeated entries and array documents (`samefq`); quantified sequences of multi-key mappings in which one entry implies another, optimised with and without coalesce / matrix.",
         "note": COMMON_NOTE + "Lists with duplicate members are excluded ('distinct members' is ambiguous).", "technique": T},
 "C09": {"level": "Exact decimal digit arithmetic in TLA+ (TLC integers are 32-bit): TLC checks trichotomy, the unions >=,<=, NaN and the engine's representation-based comparison table over 64-bit boundary points; 257 (form, operator, constant) cases x 43 field values (i64::MIN..u64::MAX, signed zero, dyadic floats, 2^63 as float, NaN, infinities, numeric and odd strings, booleans, null, containers) are replayed; seeded random 64-bit values against random constants compared digit by digit, single values and list members; bare YAML constants above i64::MAX (float kind: soundness only), neighbouring doubles, bare numbers and non-canonical numeric texts under str(), number lists against texts and fractions, int() of texts at the i64 extremes, not(k) on comparisons against incomparable values; the static semantics (typ) decides which cast/value combinations load. One cast key evaluated on several objects within one match (nested block over an array of objects, top level and nested block) with numbers as texts; str(a) == str(b) on values without a text form.",
         "note": COMMON_NOTE + "Floats are restricted to exactly representable short decimals; flt() of integers above 2^53 and str() of floats beyond 15 digits are left open.", "technique": T},
 "C10": {"level": "TLC enumerates every document shape to depth 1 (thorough 2) under a root {a, b} with position-labelled leaves x every well-formed path of <= 3 (2) segments over {a,b,a[0],a[1],b[0]} and checks the engine's cursor walk against descent; every (document, key) is then asked of Object::find / Document::find on four representations and the returned value compared structurally; keys with an empty segment (a., .a, a..b), with a non-numeric index (a[], a[x]) or with a numeric NAME (a.0) are proved missing in the model and in the engine walk. A nested mapping over every array of <= 2 (3) elements (objects with each key good/bad/absent, scalars, empty arrays) is checked against 'some element satisfies it' (MC_Nest). Seeded: dotted/indexed keys and nested mappings through Rule::matches on documents with arrays of objects and null leaves; nested blocks on one field under all 17 switch sets. A signed index (a[+1]) and a second index group (a[1][2]) are missing in the model; the code's former behaviour is kept as the named deviations index_plus / index_first_group (off since the repair).",
         "note": COMMON_NOTE + "Ill-formed keys (a[0][1], a..b) are checked for totality only.", "technique": T},
 "C11": {"level": "Every (rule, abstract document) of 600 (thorough 12k) seeded cases is matched through up to 10 representations (serde_yaml value and re-parsed text, serde_json value and re-parsed text, HashMap over std types i8..u64/f32/f64/Option/Vec/HashSet/nested maps, a hand-written Object with unsigned and with signed non-negative integers, a hand-written Document, a hand-written Object whose content is reachable only through its overridden find(), a flat-table Document of full dotted paths); TLC binds one denotation per (switch class, document) and rejects any disagreement. A third of the cases are numeric predicates over integer width boundaries (i8..u64) and over floats that are exact in f32 but long in decimal; flt() casts at the width boundaries; paths whose steps meet the other container (t.0 on an array, t[0] on an object). Texts that end in a line break under end-sensitive patterns; NaN and infinities through every representation that can carry them. Texts spelled like YAML 1.1 booleans, nulls and numbers (NO, on, ~, 1.0, 0x10) as string values in every representation.",
         "note": COMMON_NOTE + "NaN/inf cannot be carried by JSON and are skipped there.", "technique": T},
 "C12": {"level": "Per seeded case: each of 5 switch sets is optimised 4 times (printed expression must be identical - bound in the specification's `prints`), a second optimise() with other switches must be the identity (spec action ReOptimise), every document is matched from the main thread, from 4 free-running threads sharing one &Rule in different orders, and - for nested rules - from 16 threads that walk a hand-written document in LOCK STEP (every Object::get is a rendezvous: the schedule with maximal overlap); every case is executed again later in the same process in reverse order and once more in a second process in reverse order, every second case is the case-flag twin of its predecessor, lists of 65-200 needles are matched in runs of different sizes, quantified lists meet mistyped fields, or-groups hold several batches of equal size, and three rules with six 120-needle lists each are optimised 96 times in one process (prints compared by length and hash); TLC requires every observation of a (switch class, document) to equal the bound denotation. The action property Pure (matching changes no rule state) is part of TauRule. Model stage: the life-cycle machine itself (spec/TauRule.tla) is explored by TLC on its own (spec/MC_Life.tla): every schedule of opt / match / validate / serialise+reload / re-optimise / edit-the-example-lists calls on four small rules, up to 2 (thorough 3) objects and 4 (5) calls, with design-level invariants (DenSound, ValidateLaw, ReloadPlain, OnceOnly, SwBlind, the action property Pure); the schedule of every TRANSITION of the abstract state graph (history hidden by a VIEW) is executed call by call against real Rule objects (runner `sched`) and the recorded events validated like any other trace. The second process runs with a log subscriber listening at DEBUG; threads start together behind a barrier and walk the documents repeatedly; regexes over 600-character values; conditions that name an identifier in a spelling no key has. Loads that fail on a malformed number token stand between ordinary loads on the loader thread.",
         "note": COMMON_NOTE + "Schedules of the real threads are sampled (free-running) or forced (lock step), not enumerated.", "technique": T},
 "C13": {"level": "validate() is specified as a function of the bound denotation of the same switch class (TauRule!ValidateOk): ok iff no true_positives example fails and no true_negatives example matches, else a Validation error naming exactly the failing examples (markers planted in the examples; unmarked examples let the same document stand in both lists or twice in one), err (not panic) for a non-mapping example (text, number, null, lists incl. the empty one), flat dotted-key spellings of nested documents as examples. 800 (15k) seeded cases, unoptimised and two optimised forms. Model stage: the life-cycle machine itself (spec/TauRule.tla) is explored by TLC on its own (spec/MC_Life.tla): every schedule of opt / match / validate / serialise+reload / re-optimise / edit-the-example-lists calls on four small rules, up to 2 (thorough 3) objects and 4 (5) calls, with design-level invariants (DenSound, ValidateLaw, ReloadPlain, OnceOnly, SwBlind, the action property Pure); the schedule of every TRANSITION of the abstract state graph (history hidden by a VIEW) is executed call by call against real Rule objects (runner `sched`) and the recorded events validated like any other trace. validate() may come before any match (the language layer then pins the verdicts) and must follow the example lists the object holds NOW (they are public fields: action EditExamples); merge-key spellings (`<<`) of example documents.",
         "note": COMMON_NOTE, "technique": T},
 "C14": {"level": "Each object (unoptimised and optimised) is serialised, reloaded through from_str and from_value; the reloaded rule's detection and examples must equal the rule AS WRITTEN (canonical YAML comparison; identifier names differing only in case, quoting-sensitive strings) and its verdicts are held against the denotation of the not-optimised class; from_str/from_value must agree on load outcome; matching the reloaded rule must not panic. Model stage: the life-cycle machine itself (spec/TauRule.tla) is explored by TLC on its own (spec/MC_Life.tla): every schedule of opt / match / validate / serialise+reload / re-optimise / edit-the-example-lists calls on four small rules, up to 2 (thorough 3) objects and 4 (5) calls, with design-level invariants (DenSound, ValidateLaw, ReloadPlain, OnceOnly, SwBlind, the action property Pure); the schedule of every TRANSITION of the abstract state graph (history hidden by a VIEW) is executed call by call against real Rule objects (runner `sched`) and the recorded events validated like any other trace. One text in ten repeats its first identifier key with another definition: it must not load, and if it did, the definition evaluated and the one serialised must be the same. One `ser` text in eight is written in another SPELLING of the same YAML value (explicit null for an empty example list, an unreferenced identifier named by a number / float / boolean / null scalar, a document-start marker, a comment): the value path loads the value that very text parses to and must agree with the text path. A third load path, Rule::load of one file per process that every case overwrites, must yield the rule of the text just written.",
         "note": COMMON_NOTE + "Identifier order in the serialised text is HashMap order and is ignored.", "technique": T},
 "C15": {"level": "The harness is built twice (default and feature ignore_case); both run the same seeded cases in which every string pattern is case-insensitive (default build writes the i prefix, ignore_case build does not); the merged trace is validated by TLC against one denotation and the case-insensitive language-layer oracle, not optimised and optimised. The pattern-text model is TLC-checked with IcBuild = TRUE, and every pattern string of length <= 3 over the 13 syntax characters is put through into_identifier in BOTH builds, each result judged with the build that produced it (kind, case flag, argument, regex source text). Field names keep their case in both builds (documents with a case-swapped name), and str(a) == str(b) in the condition stays exact. Booleans and numbers under a str() cast next to patterns on the same field (they are exact texts, not patterns: no build folds them), optimised with shake.",
         "note": COMMON_NOTE, "technique": T},
 "C16": {"level": "Every match is also made through a recording document; each find(key) on the root or a nested object must be a key the rule writes for that position (spec/TauKeys.tla: blocks and positions), never a synthetic matrix key; each document comes with two variants that differ only in fields no rule addresses (including one-character keys \\u{0}.., names that occur only as later segments of dotted keys, extra members inside nested objects, #text / value members of objects that stand where a text is expected) and must share its denotation. Four switch states per case. Documents also get members LITERALLY named like a dotted path of the rule ('s.t': v). The textual layer of mapping KEYS is specified too (spec/TauKeyText.tla: engine layer = condition tokeniser, identifier runs re-joined with one blank, Pratt parse, classification of the root; language layer = the documented key forms NAME, int()/flt()/str()/not()/all()(NAME), of(NAME, N) with their meaning pinned): MC_Key enumerates every concatenation of up to 3 (thorough 4; C16: 4) of 16 pieces (69,905 texts at 4), TLC checks EngInRef / Written / ScalarStricter, every text is put through parse_identifier as {key: 7} and {key: [7, 8]} and TraceTau!TrKey judges modifier, count and field name; plus seeded random key texts (padding, odd white space, keyword-shaped words, indexed and dotted names, counts at the limits, bracket soups). Whatever loads must ask for a field whose words are whole runs of the key text as written (key_fabricated).",
         "note": COMMON_NOTE + "The recording document resolves paths with its own reference walk; number and order of calls are not constrained.", "technique": T},
 "C17": {"level": "TLC checks on every vector and every permutation (arity <= 3, thorough 4) that the solver loops and the language layer are order-free for TRUE, and emits every commutative C06 case with its reversed writing as an alternative source; seeded random rules get three random reorderings of and/or operands, mapping entries, sequence entries and list members at positions not under a negation or none-of; TLC requires one denotation per case, not optimised and under three optimised switch sets. Unbounded part (thorough tier): spec/TauFold.tla - the verdict of each group loop depends only on order-free quantities (number of true operands, any false, any missing), an inductive invariant discharged by Apalache for every arity.",
         "note": COMMON_NOTE, "technique": T_FOLD},
}
