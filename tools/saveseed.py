#!/usr/bin/env python3
"""saveseed.py <worktree> <Cxx> <round-tag>: copy the sub-agent's deliverables <worktree>/_out/m<i>
to seeded/<Cxx>-<round-tag>m<i>/ and write meta.json (detected_by is filled in from seeded/RESULTS.json
by seedall.py)."""
import json, os, re, shutil, sys
wt, P, tag = sys.argv[1:4]
V = os.path.dirname(os.path.dirname(os.path.abspath(__file__)))
for i in (1, 2, 3):
    src = os.path.join(wt, "_out", "m%d" % i)
    if not os.path.isdir(src):
        continue
    dst = os.path.join(V, "seeded", "%s-%sm%d" % (P, tag, i))
    os.makedirs(dst, exist_ok=True)
    for f in ("patch.diff", "seeded_demo.rs", "notes.md"):
        shutil.copy(os.path.join(src, f), os.path.join(dst, f))
    notes = open(os.path.join(src, "notes.md")).read()
    title = notes.splitlines()[0].lstrip("# ").strip()
    title = re.sub(r"^(C\d\d ?/ ?)?m\d ?[-:] ?", "", title)
    m = re.search(r"##\s*What it needs[^\n]*\n(.*?)(\n## |\Z)", notes, re.S)
    needs = " ".join(m.group(1).split())[:600] if m else ""
    meta = {"property": P, "round": int(tag[1:]), "change": title, "needs_to_manifest": needs,
            "written_by": "independent sub-agent given only the property text and a scratch worktree",
            "confirmed": "tools/confirm_seed.sh in a scratch worktree: 137 tests + doctests pass with the change; demonstration fails with it and passes without it",
            "ran": "python3 tools/seedall.py --only %s-%sm%d" % (P, tag, i)}
    json.dump(meta, open(os.path.join(dst, "meta.json"), "w"), indent=1)
    print(dst, "-", title)
