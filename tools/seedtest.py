#!/usr/bin/env python3
"""Run registered checks against a seeded change.

  tools/seedtest.py <patch.diff> <Cxx> [<Cyy> ...] [--tier quick|thorough]

Applies the patch to /repo (git apply), runs the quick (or thorough) check of each property,
prints exit status and the VIOLATION lines, and ALWAYS restores /repo (git checkout -- .).
Nothing is committed in /repo.
"""
import os
import subprocess
import sys

VERIF = os.path.dirname(os.path.dirname(os.path.abspath(__file__)))


def sh(cmd, **kw):
    return subprocess.run(cmd, stdout=subprocess.PIPE, stderr=subprocess.STDOUT, **kw)


def main():
    args = sys.argv[1:]
    tier = "quick"
    if "--tier" in args:
        i = args.index("--tier")
        tier = args[i + 1]
        del args[i:i + 2]
    patch, props = args[0], args[1:]
    st = sh(["git", "-C", "/repo", "status", "--porcelain", "--untracked-files=no"]).stdout.decode()
    if st.strip():
        print("refusing: /repo has uncommitted changes:\n" + st)
        return 2
    p = sh(["git", "-C", "/repo", "apply", "--whitespace=nowarn", patch])
    if p.returncode != 0:
        print("patch does not apply:", p.stdout.decode())
        return 2
    results = {}
    try:
        for prop in props:
            r = sh([os.path.join(VERIF, "check"), prop, "--tier", tier], cwd=VERIF)
            out = r.stdout.decode(errors="replace")
            viol = [l for l in out.splitlines() if l.startswith("VIOLATION")]
            detail = [l for l in out.splitlines() if l.startswith("   rule=")]
            results[prop] = (r.returncode, len(viol))
            print("%s: exit %d, %d VIOLATION lines" % (prop, r.returncode, len(viol)))
            for l in detail[:3]:
                print("   " + l.strip()[:200])
            if r.returncode == 2:
                print(out[-1500:])
    finally:
        sh(["git", "-C", "/repo", "checkout", "--", "."])
    st = sh(["git", "-C", "/repo", "status", "--porcelain", "--untracked-files=no"]).stdout.decode()
    if st.strip():
        print("WARNING: /repo not clean after restore:\n" + st)
    return 0 if all(v[0] == 1 for v in results.values()) else 1


if __name__ == "__main__":
    sys.exit(main())
