#!/usr/bin/env python3
"""saveseed4.py <worktree> <area-number>: round 4 (one agent per source area, the agent names the
property each change violates most directly in m<i>/property.txt): copy <worktree>/_out/m<i> to
seeded/<Cxx>-r4a<area>m<i>/ and write meta.json."""
import json, os, re, shutil, sys
wt, area = sys.argv[1:3]
rnd = sys.argv[3] if len(sys.argv) > 3 else "4"
V = os.path.dirname(os.path.dirname(os.path.abspath(__file__)))
for i in (1, 2, 3, 4):
    src = os.path.join(wt, "_out", "m%d" % i)
    if not os.path.isdir(src):
        continue
    P = open(os.path.join(src, "property.txt")).read().strip()[:3]
    dst = os.path.join(V, "seeded", "%s-r%sa%sm%d" % (P, rnd, area, i))
    os.makedirs(dst, exist_ok=True)
    for f in ("patch.diff", "seeded_demo.rs", "notes.md"):
        shutil.copy(os.path.join(src, f), os.path.join(dst, f))
    notes = open(os.path.join(src, "notes.md")).read()
    title = notes.splitlines()[0].lstrip("# ").strip()
    title = re.sub(r"^(C\d\d ?/ ?)?m\d ?[-:] ?", "", title)
    m = re.search(r"##\s*What it needs[^\n]*\n(.*?)(\n## |\Z)", notes, re.S)
    needs = " ".join(m.group(1).split())[:600] if m else ""
    meta = {"property": P, "round": int(rnd), "change": title, "needs_to_manifest": needs,
            "written_by": "independent sub-agent given the texts of all properties, one source area and a scratch worktree; it named the property the change violates most directly",
            "confirmed": "tools/confirm_seed.sh in a scratch worktree: 137 tests + doctests pass with the change; demonstration fails with it and passes without it",
            "ran": "python3 tools/seedall.py --only %s-r%sa%sm%d" % (P, rnd, area, i)}
    json.dump(meta, open(os.path.join(dst, "meta.json"), "w"), indent=1)
    print(os.path.basename(dst), "-", title)
