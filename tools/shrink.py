#!/usr/bin/env python3
"""Delta-debugging of a replay file: find a smaller case that is still judged under the same rule.

  tools/shrink.py <Cxx> <replay.json> [rule]     prints the shrunk case and writes <replay>.min.json

Every round builds all one-step reductions of the current case, runs them through the harness and
the trace specification in ONE batch, and keeps the smallest reduction that is still judged.
"""
import copy
import json
import os
import shutil
import sys

sys.path.insert(0, os.path.dirname(os.path.abspath(__file__)))
import vcheck  # noqa: E402

LISTS = {"docs", "ids", "es", "ms", "vs", "kv", "a", "s", "sws", "tps", "tns", "reprs"}
MAY_BE_EMPTY = {"kv", "a", "s", "tps", "tns", "reprs", "vs"}


def size(x):
    return len(json.dumps(x))


def walk(node, path=()):
    yield path, node
    if isinstance(node, dict):
        for k, v in node.items():
            yield from walk(v, path + (k,))
    elif isinstance(node, list):
        for i, v in enumerate(node):
            yield from walk(v, path + (i,))


def get(root, path):
    for p in path:
        root = root[p]
    return root


def setp(root, path, val):
    if not path:
        return val
    root = copy.deepcopy(root)
    cur = root
    for p in path[:-1]:
        cur = cur[p]
    cur[path[-1]] = val
    return root


def candidates(case):
    has_examples = bool(case.get("tps") or case.get("tns"))
    out = []
    has_alts = bool(case.get("alts"))
    for path, node in walk(case):
        if not path:
            continue
        if has_alts and path[0] in ("src", "alts"):
            continue        # the sources of one case belong together
        key = path[-1]
        if isinstance(node, list) and key in LISTS:
            if key == "docs" and has_examples:
                continue
            if key == "s" and len(path) >= 2 and path[-2] == "cond":
                continue
            minlen = 0 if key in MAY_BE_EMPTY else 1
            if len(node) > minlen:
                for i in range(len(node)):
                    out.append(setp(case, path, node[:i] + node[i + 1:]))
            if key == "sws" and len(node) > 2:
                for i in range(1, len(node)):
                    out.append(setp(case, path, [node[0], node[i]]))
        if isinstance(node, dict):
            t = node.get("t")
            if t in ("and", "or"):
                out.append(setp(case, path, node["l"]))
                out.append(setp(case, path, node["r"]))
            if t in ("not", "par"):
                out.append(setp(case, path, node["e"]))
            if t == "seq" and len(node.get("ms", [])) == 1:
                out.append(setp(case, path, node["ms"][0]))
            if t == "list" and len(node.get("vs", [])) == 1:
                out.append(setp(case, path, node["vs"][0]))
            if t in ("all", "of"):
                out.append(setp(case, path, {"t": "id", "n": node["n"]}))
            if "m" in node and "f" in node and node["m"] != "none":
                n2 = dict(node)
                n2["m"] = "none"
                out.append(setp(case, path, n2))
            if t == "pat" and node.get("ic"):
                n2 = dict(node)
                n2["ic"] = False
                out.append(setp(case, path, n2))
            if t == "map" and "es" in node and len(path) >= 1 and path[-1] == "v":
                # nested mapping -> its first entry's value in place
                pass
    # plan simplifications
    plan = case.get("plan", {})
    for k in ("threads", "repeat"):
        if plan.get(k):
            p2 = dict(plan)
            p2[k] = 0
            out.append(setp(case, ("plan",), p2))
    for k in ("adv", "validate", "ser", "via_value", "expr", "tri"):
        if plan.get(k):
            p2 = dict(plan)
            p2[k] = False
            out.append(setp(case, ("plan",), p2))
    uniq = {}
    for c in out:
        uniq[json.dumps(c, sort_keys=True)] = c
    return sorted(uniq.values(), key=size)


def judged_cases(prop, cases, rules, wd, tvh):
    """indices of `cases` that are judged under one of `rules`"""
    shutil.rmtree(wd, ignore_errors=True)
    os.makedirs(wd)
    cpath = os.path.join(wd, "cases.ndjson")
    tpath = os.path.join(wd, "trace.ndjson")
    vcheck.write_lines(cpath, cases)
    p, _ = vcheck.run([tvh, "run", cpath, tpath], cwd=wd, timeout=600)
    if p.returncode != 0:
        raise vcheck.ToolError("tvh failed: " + p.stdout.decode(errors="replace")[-500:])
    judged, _ = vcheck.run_trace(wd, tpath, "trace")
    # map case-event line -> ordinal
    order = []
    with open(tpath) as f:
        for i, line in enumerate(f, 1):
            if '"ev":"case"' in line[-14:]:
                order.append(i)
    idx = {ln: k for k, ln in enumerate(order)}
    hit = {}
    for j in judged:
        if j.get("rule") in rules and j.get("cl") in idx:
            hit.setdefault(idx[j["cl"]], []).append(j)
    return hit


def shrink(prop, case, rules, verbose=True):
    tvh, _ = vcheck.build_harness()
    wd = os.path.join(vcheck.WORK, "shrink")
    case = {k: v for k, v in case.items() if k not in ("origin",)}
    hit = judged_cases(prop, [case], rules, wd, tvh)
    if 0 not in hit:
        print("case is not judged under", rules)
        return case, []
    last = hit[0]
    rounds = 0
    while True:
        cands = candidates(case)[:400]
        if not cands:
            break
        hit = judged_cases(prop, cands, rules, wd, tvh)
        if not hit:
            break
        best = min(hit.keys(), key=lambda i: size(cands[i]))
        if size(cands[best]) >= size(case):
            break
        case = cands[best]
        last = hit[best]
        rounds += 1
        if verbose:
            print("  round %d: size %d (%d candidates, %d still judged)" % (rounds, size(case), len(cands), len(hit)), flush=True)
    return case, last


def main():
    prop, path = sys.argv[1], sys.argv[2]
    rec = json.load(open(path))
    rules = set(sys.argv[3].split(",")) if len(sys.argv) > 3 else {j["rule"] for j in rec["judged"]}
    case, last = shrink(prop, rec["case"], rules)
    out = path.replace(".json", ".min.json")
    json.dump({"property": prop, "case": case, "judged": last}, open(out, "w"), indent=1)
    tmp = os.path.join(vcheck.WORK, "shrink", "min.json")
    json.dump(case, open(tmp, "w"))
    tvh, _ = vcheck.build_harness()
    p, _ = vcheck.run([tvh, "one", tmp], timeout=60)
    txt = p.stdout.decode(errors="replace")
    print(txt[txt.find("--- rule text"):])
    for j in last[:6]:
        print("JUDGED", json.dumps({k: v for k, v in j.items() if k != "case"}))
    print("plan:", json.dumps(case.get("plan")))
    print("written", out)


if __name__ == "__main__":
    main()
