#!/usr/bin/env python3
"""Regression over every seeded change kept under seeded/.

  tools/seedall.py [--only <prefix>] [--tier quick] [--shard i/n]

--shard i/n takes every n-th change starting at the i-th (0-based), works in its own box
(/var/tmp/seedbox<i>) and writes seeded/RESULTS.<i>.json, so that n shards can run side by side;
`tools/seedall.py --merge` joins the shard files into seeded/RESULTS.json.

For each seeded/<id>/ applies patch.diff to /repo, runs the registered check of the change's own
property, restores /repo, and writes seeded/RESULTS.json (id -> exit, violations, first judged
rules).  A change counts as detected when the check exits 1 with at least one VIOLATION line.
With --sandbox (default when run as root) the whole regression runs in a private mount namespace
in which copies of /repo and /verif (under /var/tmp/seedbox) are bind-mounted over /repo and /verif:
the real /repo is never touched and other checks can run at the same time.  Results are copied back
to seeded/RESULTS.json.  Without it /repo itself is patched and restored after every change; do not
run anything else meanwhile.  Nothing is ever committed in /repo.
"""
import json
import os
import subprocess
import sys
import time

VERIF = os.path.dirname(os.path.dirname(os.path.abspath(__file__)))


def sh(cmd, **kw):
    return subprocess.run(cmd, stdout=subprocess.PIPE, stderr=subprocess.STDOUT, **kw)


BOX = "/var/tmp/seedbox"


def shard_of(args):
    if "--shard" in args:
        i, n = args[args.index("--shard") + 1].split("/")
        return int(i), int(n)
    return None


def sandbox(args):
    global BOX
    sh_ = shard_of(args)
    if sh_:
        BOX = "/var/tmp/seedbox%d" % sh_[0]
    """Re-execute inside a mount namespace over copies of /repo and /verif."""
    os.makedirs(BOX, exist_ok=True)
    for src, dst, extra in (("/repo/", BOX + "/repo/", ["--exclude", "target"]),
                            (VERIF + "/", BOX + "/verif/", ["--exclude", "work", "--exclude", "replays"])):
        subprocess.check_call(["rsync", "-a", "--delete"] + extra + [src, dst])
    sh(["git", "-C", BOX + "/repo", "checkout", "--", "."])
    inner = ("mount --bind %s/repo /repo && mount --bind %s/verif /verif && cd /verif && "
             "exec python3 tools/seedall.py --inner %s" % (BOX, BOX, " ".join(args)))
    rc = subprocess.call(["unshare", "-m", "sh", "-c", inner])
    name = "RESULTS.%d.json" % sh_[0] if sh_ else "RESULTS.json"
    res = os.path.join(BOX, "verif", "seeded", name)
    if os.path.exists(res):
        subprocess.check_call(["cp", res, os.path.join(VERIF, "seeded", name)])
    return rc


def merge():
    import glob
    out = {}
    for f in sorted(glob.glob(os.path.join(VERIF, "seeded", "RESULTS.[0-9]*.json"))):
        out.update(json.load(open(f)))
        os.remove(f)
    json.dump(out, open(os.path.join(VERIF, "seeded", "RESULTS.json"), "w"), indent=1, sort_keys=True)
    missed = sorted(k for k, v in out.items() if v.get("exit") != 1 or not v.get("violations"))
    print("%d changes, missed: %s" % (len(out), missed or "none"))
    return 0


def main():
    args = sys.argv[1:]
    if "--merge" in args:
        return merge()
    if "--inner" in args:
        args.remove("--inner")
    elif "--no-sandbox" in args:
        args.remove("--no-sandbox")
    elif os.geteuid() == 0:
        return sandbox(args)
    only = None
    tier = "quick"
    if "--only" in args:
        only = args[args.index("--only") + 1]
    if "--tier" in args:
        tier = args[args.index("--tier") + 1]
    rnd = args[args.index("--round") + 1] if "--round" in args else None     # e.g. r10: ids containing -r10
    st = sh(["git", "-C", "/repo", "status", "--porcelain", "--untracked-files=no"]).stdout.decode()
    if st.strip():
        print("refusing: /repo has uncommitted changes:\n" + st)
        return 2
    sh_ = shard_of(args)
    res_path = os.path.join(VERIF, "seeded", "RESULTS.%d.json" % sh_[0] if sh_ else "RESULTS.json")
    results = json.load(open(res_path)) if os.path.exists(res_path) else {}
    ids = sorted(d for d in os.listdir(os.path.join(VERIF, "seeded"))
                 if os.path.isdir(os.path.join(VERIF, "seeded", d)))
    if rnd:
        ids = [i for i in ids if ("-%sm" % rnd) in i or ("-%sa" % rnd) in i]
    if sh_:
        ids = ids[sh_[0]::sh_[1]]
    missed = []
    for sid in ids:
        if only and not sid.startswith(only):
            continue
        prop = sid.split("-")[0]
        patch = os.path.join(VERIF, "seeded", sid, "patch.diff")
        p = sh(["git", "-C", "/repo", "apply", "--whitespace=nowarn", patch])
        if p.returncode != 0:
            print("%s: patch does not apply: %s" % (sid, p.stdout.decode()[:300]))
            results[sid] = {"exit": None, "error": "patch does not apply"}
            missed.append(sid)
            continue
        t0 = time.time()
        try:
            r = sh([os.path.join(VERIF, "check"), prop, "--tier", tier], cwd=VERIF)
        finally:
            sh(["git", "-C", "/repo", "checkout", "--", "."])
        out = r.stdout.decode(errors="replace")
        viol = [l for l in out.splitlines() if l.startswith("VIOLATION")]
        rules = sorted({l.strip().split()[0] for l in out.splitlines() if l.startswith("   rule=")})
        results[sid] = {"property": prop, "tier": tier, "exit": r.returncode, "violations": len(viol),
                        "rules": rules, "wall_s": round(time.time() - t0, 1)}
        print("%s: exit %d, %d VIOLATION lines %s (%.0fs)" % (sid, r.returncode, len(viol), rules, time.time() - t0),
              flush=True)
        if r.returncode != 1 or not viol:
            missed.append(sid)
            if r.returncode == 2:
                print(out[-1200:])
        json.dump(results, open(res_path, "w"), indent=1, sort_keys=True)
    st = sh(["git", "-C", "/repo", "status", "--porcelain", "--untracked-files=no"]).stdout.decode()
    if st.strip():
        print("WARNING: /repo not clean after restore:\n" + st)
    print("missed: %s" % (missed or "none"))
    return 0 if not missed else 1


if __name__ == "__main__":
    sys.exit(main())
