#!/bin/sh
# confirm_seed.sh <worktree> <mutant dir> [demo features]: the change compiles, the existing suite
# passes with it, the demonstration fails with it and passes without it.  Leaves the worktree clean.
wt=$1; m=$2; feat=${3:+--features $3}
cd "$wt" || exit 2
git checkout -q -- . ; rm -f tests/seeded_demo.rs
cp "$m/seeded_demo.rs" tests/seeded_demo.rs
base=$(timeout 300 cargo test --offline $feat --test seeded_demo 2>&1 | grep -aE "^test result" | tail -1)
git apply --whitespace=nowarn "$m/patch.diff" || { echo "patch does not apply"; exit 2; }
withp=$(timeout 300 cargo test --offline $feat --test seeded_demo 2>&1 | grep -aE "^test result" | tail -1)
rm -f tests/seeded_demo.rs
suite=$(cargo test --workspace --no-fail-fast --offline 2>&1 | grep -aE "^test result" | tr '\n' '|')
git checkout -q -- . ; rm -f tests/seeded_demo.rs
echo "demo without change: $base"
echo "demo with change:    $withp"
echo "suite with change:   $suite"
