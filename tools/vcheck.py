#!/usr/bin/env python3
"""Runner for the model-based checks of tau-engine (see /verif/DESIGN.md section 3.4).

  ./check <Cxx> --tier quick|thorough        run the check of one property
  ./check <Cxx> --replay <file>              re-run one recorded case and show what the engine does
  ./check --setup                            build the harness, parse every TLA+ module

Every check runs the same three stages:
  A. model     TLC on spec/MC_<topic>.tla: design-level invariants over a bounded universe and
               one REPLAY line (a case) per behaviour
  B. replay    harness/tvh executes those cases, and seeded random cases beyond the bound,
               against /repo's working tree and records API-level events (ndjson)
  C. validate  TLC on spec/TraceTau.tla checks the recorded history against the specification;
               every event the specification does not allow is printed as a JUDGE line
Exit status: 0 nothing judged for this property (KNOWN-FINDING lines for listed defects),
1 with VIOLATION lines and replay files, 2 for tool errors.
"""
import hashlib
import json
import os
import re
import shutil
import subprocess
import sys
import time

VERIF = os.path.dirname(os.path.dirname(os.path.abspath(__file__)))
SPEC = os.path.join(VERIF, "spec")
HARNESS = os.path.join(VERIF, "harness")
WORK = os.path.join(VERIF, "work")
REPLAYS = os.path.join(VERIF, "replays")
EVIDENCE = os.path.join(VERIF, "evidence")
KNOWN = os.path.join(VERIF, "known_findings.json")

sys.path.insert(0, os.path.dirname(os.path.abspath(__file__)))
from registry import PROPS  # noqa: E402


class ToolError(Exception):
    pass


def log(*a):
    print(*a, flush=True)


def run(cmd, cwd=None, env=None, timeout=None, out=None):
    e = dict(os.environ)
    if env:
        e.update(env)
    t0 = time.time()
    try:
        if out:
            with open(out, "w") as f:
                p = subprocess.run(cmd, cwd=cwd, env=e, stdout=f, stderr=subprocess.STDOUT, timeout=timeout)
        else:
            p = subprocess.run(cmd, cwd=cwd, env=e, stdout=subprocess.PIPE, stderr=subprocess.STDOUT, timeout=timeout)
    except subprocess.TimeoutExpired:
        raise ToolError("timeout after %ss: %s" % (timeout, " ".join(cmd)))
    return p, time.time() - t0


# ------------------------------------------------------------------------------------------
# build

def cargo_env():
    return {"CARGO_NET_OFFLINE": "true"}


def build_harness(ic=False):
    lock = os.path.join(HARNESS, "Cargo.lock")
    if not os.path.exists(lock):
        shutil.copy("/repo/Cargo.lock", lock)
    cmd = ["cargo", "build", "--release", "--offline"]
    tdir = "target"
    if ic:
        cmd += ["--features", "ic", "--target-dir", "target-ic"]
        tdir = "target-ic"
    p, dt = run(cmd, cwd=HARNESS, env=cargo_env(), timeout=1800)
    if p.returncode != 0:
        sys.stdout.write(p.stdout.decode(errors="replace")[-6000:])
        raise ToolError("harness build failed (does /repo compile?)")
    return os.path.join(HARNESS, tdir, "release", "tvh"), dt


# ------------------------------------------------------------------------------------------
# TLC

def tlc_cmd(workers):
    return ["tlc", "-workers", str(workers), "-noGenerateSpecTE", "-cleanup"]


TLC_STATS = re.compile(r"(\d+) states generated, (\d+) distinct states found")


def unquote(line):
    """TLC prints a string value as a TLA+ string literal; recover the text."""
    line = line.rstrip("\n")
    if line.startswith('"') and line.endswith('"'):
        line = line[1:-1]
        line = line.replace('\\"', '"').replace("\\\\", "\\")
    return line


def run_apalache(wd, module, obligations, timeout=900):
    """Stage A (unbounded part): discharge inductive-invariant obligations with Apalache.
    obligations: list of {"init":..., "inv":..., "length":...}.  Returns stats; ToolError if one fails."""
    shutil.copy(os.path.join(SPEC, module + ".tla"), os.path.join(wd, module + ".tla"))
    done = []
    t0 = time.time()
    for i, ob in enumerate(obligations):
        out = os.path.join(wd, "apalache-%s-%d.out" % (module, i))
        cmd = ["apalache-mc", "check", "--init=" + ob["init"], "--inv=" + ob["inv"], "--length=%d" % ob["length"],
               "--out-dir=" + os.path.join(wd, "apalache-out"), module + ".tla"]
        p, dt = run(cmd, cwd=wd, timeout=timeout, out=out)
        text = open(out, errors="replace").read()
        if "The outcome is: NoError" not in text or "EXITCODE: OK" not in text:
            raise ToolError("apalache %s %s: obligation not discharged\n%s" % (module, ob, text[-1500:]))
        done.append(dict(ob, wall_s=round(dt, 1)))
    shutil.rmtree(os.path.join(wd, "apalache-out"), ignore_errors=True)
    return {"module": module, "tool": "apalache-mc", "obligations": done, "wall_s": round(time.time() - t0, 1),
            "states": 0, "distinct": 0}


def expand_schedules(cases):
    """MC_Life prints each base case once ({"def": id, "case": {...}}) and every schedule as
    {"use": id, "sched": [...]}: join them into ordinary cases for the `sched` runner."""
    defs = {c["def"]: c["case"] for c in cases if "def" in c}
    if not defs:
        return cases
    out = []
    for c in cases:
        if "use" in c:
            full = dict(defs[c["use"]])
            full["sched"] = c["sched"]
            full["run"] = "sched"
            out.append(full)
        elif "def" not in c:
            out.append(c)
    return out


def run_mc(wd, module, constants, invariants, workers=4, timeout=1500, props=None, constraint=None, specname="Spec", view=None):
    """Stage A: model check spec/<module>.tla with the given constants; returns (cases, stats)."""
    cfg = os.path.join(wd, module + ".cfg")
    with open(cfg, "w") as f:
        f.write("SPECIFICATION %s\nCONSTANTS\n" % specname)
        for k, v in constants.items():
            f.write("  %s = %s\n" % (k, v))
        if invariants:
            f.write("INVARIANTS\n")
            for i in invariants:
                f.write("  %s\n" % i)
        if props:
            f.write("PROPERTIES\n")
            for i in props:
                f.write("  %s\n" % i)
        if constraint:
            f.write("CONSTRAINT %s\n" % constraint)
        if view:
            f.write("VIEW %s\n" % view)
        f.write("CHECK_DEADLOCK FALSE\n")
    out = os.path.join(wd, module + ".out")
    meta = os.path.join(wd, "meta-" + module)
    cmd = tlc_cmd(workers) + ["-metadir", meta, "-config", cfg, os.path.join(SPEC, module + ".tla")]
    p, dt = run(cmd, cwd=wd, timeout=timeout, out=out,
                env={"JAVA_TOOL_OPTIONS": "-Xss512m"})
    cases = []
    stats = {"module": module, "wall_s": round(dt, 2), "states": 0, "distinct": 0}
    ok = False
    errors = []
    with open(out, errors="replace") as f:
        for line in f:
            if line.startswith('"REPLAY '):
                cases.append(json.loads(unquote(line)[7:]))
            elif "Model checking completed. No error has been found" in line:
                ok = True
            elif line.startswith("Error:") or "is violated" in line:
                errors.append(line.strip())
            else:
                m = TLC_STATS.search(line)
                if m:
                    stats["states"] = int(m.group(1))
                    stats["distinct"] = int(m.group(2))
    if not ok:
        tail = subprocess.run(["tail", "-n", "40", out], stdout=subprocess.PIPE).stdout.decode(errors="replace")
        tail = "\n".join(l for l in tail.splitlines() if not l.startswith('"REPLAY'))
        raise ToolError("model %s: TLC did not complete cleanly (%s)\n%s" % (module, "; ".join(errors[:3]), tail))
    cases = expand_schedules(cases)
    stats["cases"] = len(cases)
    stats["transitions"] = max(stats["states"] - 1, 0)
    return cases, stats


def run_trace(wd, trace, name, timeout=1500, explain=True):
    """Stage C: validate one recorded trace; returns (judgements, stats)."""
    out = os.path.join(wd, name + ".tlcout")
    meta = os.path.join(wd, "meta-" + name)
    cmd = tlc_cmd(1) + ["-metadir", meta, "-config", os.path.join(SPEC, "TraceTau.cfg"),
                        os.path.join(SPEC, "TraceTau.tla")]
    p, dt = run(cmd, cwd=wd, timeout=timeout, out=out,
                env={"TRACE": trace, "EXPLAIN": "1" if explain else "0",
                     "JAVA_TOOL_OPTIONS": "-Xss1g -Xmx8g -Dtlc2.tool.queue.IStateQueue=StateDeque"})
    judged = []
    ok = False
    stats = {"trace": os.path.basename(trace), "wall_s": round(dt, 2), "states": 0}
    with open(out, errors="replace") as f:
        for line in f:
            if line.startswith('"JUDGE '):
                judged.append(json.loads(unquote(line)[6:]))
            elif "Model checking completed. No error has been found" in line:
                ok = True
            else:
                m = TLC_STATS.search(line)
                if m:
                    stats["states"] = int(m.group(1))
    if not ok:
        tail = subprocess.run(["tail", "-n", "30", out], stdout=subprocess.PIPE).stdout.decode(errors="replace")
        raise ToolError("trace validation of %s did not complete (trace not consumed or TLC error)\n%s" % (trace, tail))
    return judged, stats


# ------------------------------------------------------------------------------------------
# known findings

def load_known():
    if not os.path.exists(KNOWN):
        return []
    with open(KNOWN) as f:
        return json.load(f).get("findings", [])


def explained_by_model(j):
    """For findings about the NOT optimised engine: the engine-layer model (spec/TauEngine.tla), which
    transcribes the parser's batching and the solver as they are, must predict what was observed.
    A change to the code that produces a different wrong result is then not attributed."""
    info = j.get("info") or {}
    eng, out = info.get("eng"), info.get("out")
    if eng in (None, "-"):
        return False
    # "U": the model itself says the case is outside what it transcribes (the text of a float with
    # more than 15 digits, a numeric text in exponent / inf / nan form): it neither confirms nor
    # refutes, and the finding's trigger alone decides - the finding is listed by its trigger
    if eng != "U":
        if out in ("T", "F", "M"):
            return eng == out
        if out not in ("t", "f"):
            return False
        if (eng == "T") != (out == "t"):
            return False
    if out in ("t", "f") and j.get("rule") == "den":
        # the observation it disagrees with must be explained as well: the model of the NOT
        # optimised rule predicts the verdict the denotation was bound to
        eng0, den0 = info.get("eng0"), info.get("den0")
        if eng0 in (None, "-") or den0 in (None, "-"):
            return eng == "U" and eng0 == "-"      # nothing of the class is modelled either
        return eng0 == "U" or (eng0 == "T") == (den0 == "t")
    return True


def attribute(j, prop, known):
    """A judged event belongs to an open known finding iff the finding is for this property, its
    deviation trigger holds for the case (computed by TauKnown!Devs inside TLC) and the clause
    that judged the event is one the finding lists."""
    for k in known:
        # an open finding is a defect of the ENGINE: it can surface in the run of any property whose
        # clauses it may explain (its `properties` field says which properties it violates, not where
        # it may be seen)
        if k.get("status") != "open":
            continue
        if k.get("dev") in j.get("devs", []) and j.get("rule") in k.get("rules", []):
            if k.get("optimised_only") and not (j.get("info") or {}).get("sw"):
                continue        # a finding about the optimiser cannot explain a not-optimised object
            if k.get("model_explains") and not explained_by_model(j):
                continue
            return k
    return None


# ------------------------------------------------------------------------------------------
# one check

def case_id(case):
    return hashlib.sha256(json.dumps(case, sort_keys=True).encode()).hexdigest()[:16]


def write_lines(path, objs):
    with open(path, "w") as f:
        for o in objs:
            f.write(json.dumps(o, separators=(",", ":")) + "\n")


def trace_cases(trace):
    """map line number (1-based) of each case event -> case"""
    out = {}
    with open(trace) as f:
        for i, line in enumerate(f, 1):
            if line.startswith('{"c":') or '"ev":"case"' in line[-20:]:
                try:
                    e = json.loads(line)
                except ValueError:
                    continue
                if e.get("ev") == "case":
                    out[i] = e["c"]
    return out


def check(prop, tier, seed):
    t0 = time.time()
    spec = PROPS[prop]
    wd = os.path.join(WORK, "%s-%s" % (prop, tier))
    shutil.rmtree(wd, ignore_errors=True)
    os.makedirs(wd)
    os.makedirs(EVIDENCE, exist_ok=True)
    rdir = os.path.join(REPLAYS, prop)
    shutil.rmtree(rdir, ignore_errors=True)

    log("== %s (%s, seed %d): %s" % (prop, tier, seed, spec["title"]))
    tvh, bdt = build_harness()
    tvh_ic = None
    if spec.get("needs_ic"):
        tvh_ic, bdt2 = build_harness(ic=True)
        bdt += bdt2
    log("   harness built in %.1fs" % bdt)

    # A. model
    mc_stats = []
    cases = []
    for m in spec["models"](tier):
        if m.get("apalache"):
            st = run_apalache(wd, m["module"], m["apalache"])
            mc_stats.append(st)
            log("   A %-10s apalache: %d obligations discharged (unbounded), %.1fs" % (m["module"], len(st["obligations"]), st["wall_s"]))
            continue
        cs, st = run_mc(wd, m["module"], m["constants"], m["invariants"], workers=m.get("workers", 4),
                        props=m.get("props"), constraint=m.get("constraint"), timeout=m.get("timeout", 1500),
                        specname=m.get("spec", "Spec"), view=m.get("view"))
        need = m.get("min_cases", 1)
        if len(cs) < need and not m.get("no_cases"):
            raise ToolError("model %s emitted %d cases (< %d): vacuous" % (m["module"], len(cs), need))
        forms = {}
        for c in cs:
            forms[c.get("form", "-")] = forms.get(c.get("form", "-"), 0) + 1
        missing = [f for f in m.get("forms", []) if f not in forms]
        if missing:
            raise ToolError("model %s never produced forms %s: vacuous" % (m["module"], missing))
        st["forms"] = forms
        st["constants"] = m["constants"]
        st["invariants"] = m["invariants"]
        mc_stats.append(st)
        if m.get("plan"):
            plan = dict(m["plan"])
            if plan.get("sws") == "ALL":
                plan["sws"] = [[]] + [[bool(i & 1), bool(i & 2), bool(i & 4), bool(i & 8)] for i in range(16)]
            elif plan.get("sws") == "SOME":
                plan["sws"] = [[]] + [[bool(i & 1), bool(i & 2), bool(i & 4), bool(i & 8)] for i in (15, 1, 2, 4, 8)]
            for c in cs:
                c["plan"] = plan
        for c in cs:
            c.setdefault("origin", "tlc:" + m["module"])
        cases += cs
        log("   A %-10s %6d states, %6d cases, %.1fs  %s" % (m["module"], st["states"], len(cs), st["wall_s"], m["constants"]))

    # B. replay + random cases
    n_tlc = len(cases)
    for g in spec["gens"](tier):
        gpath = os.path.join(wd, "gen-%s.ndjson" % g["topic"])
        p, dt = run([tvh, "gen", g["topic"], str(seed), str(g["n"]), gpath], cwd=wd, timeout=900)
        if p.returncode != 0:
            raise ToolError("tvh gen %s failed: %s" % (g["topic"], p.stdout.decode(errors="replace")[-2000:]))
        with open(gpath) as f:
            for line in f:
                if line.strip():
                    c = json.loads(line)
                    c.setdefault("origin", "gen:" + g["topic"])
                    cases.append(c)
        log("   B gen %-10s %6d cases  %.1fs" % (g["topic"], g["n"], dt))
    if not cases:
        raise ToolError("no cases")
    chunk = spec.get("chunk", 1500)
    njobs = max(1, int(os.environ.get("VERIF_JOBS", "4")))
    chunk = max(40, min(chunk, (len(cases) + njobs - 1) // njobs))   # at least njobs chunks when there is enough work
    judged_all = []
    tr_stats = []
    events = 0
    eng_events = 0
    skipped = 0
    case_by_key = {}
    # chunk boundaries: schedules (short cases, few events each) go in larger chunks of their own
    bounds = []
    start = 0
    def kind_of(c):
        r = c.get("run")
        return r if r in ("sched", "key", "ident") else ""
    # textual cases are independent of everything else: they go last (stable), so that a topic which interleaves them
    # with other cases (fuzz) does not cut the run into hundreds of chunks of one case, each with its own TLC start
    cases.sort(key=lambda c: {"ident": 1, "key": 2}.get(kind_of(c), 0))
    # textual cases (one or two events each, judged in microseconds) go in chunks of 20,000
    LIM = {"sched": max(chunk, 700), "key": 20000, "ident": max(chunk, 5000)}
    while start < len(cases):
        kind = kind_of(cases[start])
        lim = LIM.get(kind, chunk)
        end = start
        while end < len(cases) and end - start < lim and kind_of(cases[end]) == kind:
            end += 1
        bounds.append((start, end))
        start = end
    nchunks = len(bounds)
    explain = bool({"den", "oracle", "tri_oracle", "tri_both"} & set(spec["rules"]))

    def do_chunk(ci):
        """Stages B and C for one chunk of cases (chunks are independent: own files, own TLC)."""
        part = cases[bounds[ci][0]:bounds[ci][1]]
        cpath = os.path.join(wd, "cases-%03d.ndjson" % ci)
        tpath = os.path.join(wd, "trace-%03d.ndjson" % ci)
        write_lines(cpath, part)
        p, dt = run([tvh, "run", cpath, tpath], cwd=wd, timeout=1800)
        if p.returncode != 0:
            raise ToolError("tvh run failed: %s" % p.stdout.decode(errors="replace")[-3000:])
        if tvh_ic:
            tpath2 = os.path.join(wd, "trace-ic-%03d.ndjson" % ci)
            p, dt2 = run([tvh_ic, "run", cpath, tpath2], cwd=wd, timeout=1800)
            if p.returncode != 0:
                raise ToolError("tvh(ic) run failed: %s" % p.stdout.decode(errors="replace")[-3000:])
            merge_ic(tpath, tpath2)
        if spec.get("second_process"):
            # C12: the same cases in ANOTHER process, in the opposite order (so that every case has a
            # different history behind it); its events join the cases of the first process
            # (schedules of MC_Life are one-process behaviours by construction: not repeated here)
            cpath2 = os.path.join(wd, "cases-rev-%03d.ndjson" % ci)
            rev = []
            idx2 = [i for i, c in enumerate(part) if c.get("run") != "sched"]
            for c in reversed([part[i] for i in idx2]):
                c2 = dict(c)
                c2["plan"] = dict(c.get("plan", {}))
                c2["plan"]["again"] = False
                rev.append(c2)
            write_lines(cpath2, rev)
            tpath2 = os.path.join(wd, "trace-rev-%03d.ndjson" % ci)
        if spec.get("second_process") and rev:
            # ... and with a log subscriber listening at DEBUG (ambient state a verdict must not depend on)
            p, dt2 = run([tvh, "run", cpath2, tpath2], cwd=wd, timeout=1800, env={"VERIF_TRACE": "1"})
            if p.returncode != 0:
                raise ToolError("tvh (second process) run failed: %s" % p.stdout.decode(errors="replace")[-3000:])
            merge_ic(tpath, tpath2, tag="proc2", load_ev="load2", reverse=True, only=idx2)
        n_ev = n_eng = n_skip = 0
        with open(tpath) as f:
            eng_case = False
            for line in f:
                n_ev += 1
                if '"ev":"skip"' in line:
                    n_skip += 1
                elif line.endswith('"ev":"case"}\n'):
                    eng_case = '"eng":true' in line
                elif eng_case and ('"ev":"match"' in line or '"ev":"tri"' in line):
                    n_eng += 1
        # C. validate
        judged, st = run_trace(wd, tpath, "trace-%03d" % ci, explain=explain)
        tcs = trace_cases(tpath)
        for j in judged:
            j["case"] = tcs.get(j.get("cl"))
            j["chunk"] = ci
        log("   B/C chunk %d/%d: %d cases, %d states validated, %d judged  (run %.1fs, tlc %.1fs)" %
            (ci + 1, nchunks, len(part), st["states"], len(judged), dt, st["wall_s"]))
        return judged, st, n_ev, n_eng, n_skip

    # chunks run side by side (each validation is one single-worker TLC); results are taken in chunk order
    jobs = max(1, min(njobs, nchunks))
    import concurrent.futures
    with concurrent.futures.ThreadPoolExecutor(max_workers=jobs) as pool:
        futs = [pool.submit(do_chunk, ci) for ci in range(nchunks)]
        try:
            for fu in futs:
                judged, st, n_ev, n_eng, n_skip = fu.result()
                judged_all += judged
                tr_stats.append(st)
                events += n_ev
                eng_events += n_eng
                skipped += n_skip
        except BaseException:
            for fu in futs:
                fu.cancel()
            raise

    # classify
    known = load_known()
    rules = set(spec["rules"])
    violations = {}
    known_hits = {}
    other = {}
    for j in judged_all:
        # an event may violate several clauses (`also`); it counts if any of them is one of the
        # property's, and is then judged under that clause
        clauses = [j.get("rule")] + list(j.get("also") or [])
        mine = [c for c in clauses if c in rules]
        if not mine:
            other[j.get("rule")] = other.get(j.get("rule"), 0) + 1
            continue
        j = dict(j)
        j["rule"] = mine[0]
        k = attribute(j, prop, known)
        if k:
            known_hits.setdefault(k["id"], []).append(j)
            continue
        cid = case_id(j.get("case")) if j.get("case") is not None else "line%d" % j.get("l", 0)
        violations.setdefault(cid, []).append(j)

    for kid, js in known_hits.items():
        k = [x for x in known if x["id"] == kid][0]
        log("KNOWN-FINDING: property=%s %s: %s (%d judged events in this run)" % (prop, kid, k["what"], len(js)))
    if violations:
        os.makedirs(rdir, exist_ok=True)
    for cid, js in list(violations.items())[:50]:
        path = os.path.join(rdir, cid + ".json")
        with open(path, "w") as f:
            json.dump({"property": prop, "case": js[0].get("case"),
                       "judged": [{k: v for k, v in j.items() if k != "case"} for j in js]}, f, indent=1)
        log("VIOLATION property=%s replay=%s" % (prop, path))
        log("   rule=%s info=%s" % (js[0].get("rule"), json.dumps(js[0].get("info"))))
    if len(violations) > 50:
        log("   ... and %d more violating cases" % (len(violations) - 50))

    # evidence
    distinct = len({case_id(c) for c in cases})
    samples = []
    for c in cases[:1] + cases[n_tlc:n_tlc + 1] + cases[-1:]:
        samples.append(c)
    states = sum(s["states"] for s in mc_stats) + sum(s["states"] for s in tr_stats)
    ev = {
        "property_id": prop,
        "tier": tier,
        "seed": seed,
        "level": spec.get("level", "model_checking"),
        "coverage": {
            "states": states,
            "transitions": max(states - len(mc_stats) - len(tr_stats), 1),
            "traces_validated_against_impl": len(cases),
            "samples": samples[:3],
            "evaluations": events,
            "distinct_nontrivial": distinct,
            "rule": spec.get("rule", "cases are distinct by the SHA-256 of their canonical JSON; a case is "
                             "non-trivial when the engine loaded it and at least one match was observed"),
            "exhaustive": len(spec["gens"](tier)) == 0,
            "model_runs": mc_stats,
            "trace_runs": tr_stats,
            "cases_from_tlc": n_tlc,
            "cases_from_generators": len(cases) - n_tlc,
            "events_recorded": events,
            "cases_skipped_by_renderer": skipped,
            "engine_model_events_checked": eng_events,
            "engine_model_drift": other.get("model_drift", 0),
            "judged_total": len(judged_all),
            "judged_other_rules": other,
            "known_finding_hits": {k: len(v) for k, v in known_hits.items()},
            "judge_rules_counted": sorted(rules),
        },
        "assumptions": spec.get("assumptions", []) + [
            "TLC, the CommunityModules Json/IOUtils, serde_yaml/serde_json as renderers are trusted",
            "bounded universes: see coverage.model_runs[].constants",
        ],
        "wall_s": round(time.time() - t0, 2),
        "violations": len(violations),
    }
    with open(os.path.join(EVIDENCE, prop + ".json"), "w") as f:
        json.dump(ev, f, indent=1)
    log("   %s: %d cases (%d from TLC), %d events, %d judged, %d violations, %d known, %.1fs" %
        (prop, len(cases), n_tlc, events, len(judged_all), len(violations), len(known_hits), time.time() - t0))
    return 1 if violations else 0


def merge_ic(tpath, tpath2, tag="ic", load_ev="icload", reverse=False, only=None):
    """C15: append to each case of the default build's trace the events the ignore_case build
    recorded for the same case, as further objects of that case (obj ids shifted)."""
    def chunks(path):
        out = []
        with open(path) as f:
            for line in f:
                if not line.strip():
                    continue
                e = json.loads(line)
                if e.get("ev") == "case":
                    out.append([])
                if out:
                    out[-1].append(e)
        return out
    a, b = chunks(tpath), chunks(tpath2)
    if reverse:
        b = list(reversed(b))
    if only is not None and len(b) == len(only):
        full = [[None] for _ in a]
        for i, cb in zip(only, b):
            full[i] = cb
        b = full
    if len(a) != len(b):
        raise ToolError("the two builds recorded a different number of cases")
    with open(tpath, "w") as f:
        for ca, cb in zip(a, b):
            nobj = sum(1 for e in ca if e.get("ev") in ("opt", "alt", "reload", "reopt", "edit"))
            for e in ca:
                f.write(json.dumps(e, separators=(",", ":")) + "\n")
            for e in cb[1:]:
                e = dict(e)
                if e.get("ev") == "load":
                    e["ev"] = load_ev
                    e["via"] = tag
                elif e.get("ev") in ("skip", "load2"):
                    pass
                else:
                    for key in ("obj", "from"):
                        if key in e:
                            e[key] += nobj
                e["build"] = tag
                f.write(json.dumps(e, separators=(",", ":")) + "\n")


def replay(prop, path):
    tvh, _ = build_harness()
    with open(path) as f:
        rec = json.load(f)
    case = rec.get("case", rec)
    wd = os.path.join(WORK, "replay")
    shutil.rmtree(wd, ignore_errors=True)
    os.makedirs(wd)
    cpath = os.path.join(wd, "case.json")
    with open(cpath, "w") as f:
        json.dump(case, f)
    p, _ = run([tvh, "one", cpath], cwd=wd, timeout=300)
    sys.stdout.write(p.stdout.decode(errors="replace"))
    if "judged" in rec:
        log("--- judged by the specification when recorded ---")
        for j in rec["judged"]:
            log(json.dumps(j))
    write_lines(os.path.join(wd, "cases.ndjson"), [case])
    tpath = os.path.join(wd, "trace.ndjson")
    run([tvh, "run", os.path.join(wd, "cases.ndjson"), tpath], cwd=wd, timeout=300)
    judged, _ = run_trace(wd, tpath, "trace")
    log("--- judged by the specification now ---")
    for j in judged:
        log(json.dumps(j))
    rules = set(PROPS[prop]["rules"]) if prop in PROPS else None
    bad = [j for j in judged if rules is None or j.get("rule") in rules]
    return 1 if bad else 0


def setup():
    build_harness()
    mods = sorted(f for f in os.listdir(SPEC) if f.endswith(".tla"))
    for m in mods:
        p, _ = run(["tla-sany", m], cwd=SPEC, timeout=300)
        txt = p.stdout.decode(errors="replace")
        if p.returncode != 0 or "*** Errors" in txt or "Fatal" in txt:
            sys.stdout.write(txt[-3000:])
            raise ToolError("SANY rejects " + m)
    log("setup ok: harness built, %d TLA+ modules parse" % len(mods))
    return 0


def main(argv):
    if len(argv) >= 2 and argv[1] == "--setup":
        return setup()
    if len(argv) < 2 or argv[1] not in PROPS:
        log(__doc__)
        return 2
    prop = argv[1]
    tier = os.environ.get("VERIF_TIER", "quick")
    seed = int(os.environ.get("VERIF_SEED", "1") or 1)
    rp = None
    i = 2
    while i < len(argv):
        if argv[i] == "--tier":
            tier = argv[i + 1]
            i += 2
        elif argv[i] == "--seed":
            seed = int(argv[i + 1])
            i += 2
        elif argv[i] == "--replay":
            rp = argv[i + 1]
            i += 2
        else:
            log("unknown argument " + argv[i])
            return 2
    if rp:
        return replay(prop, rp)
    return check(prop, tier, seed)


if __name__ == "__main__":
    try:
        sys.exit(main(sys.argv))
    except ToolError as e:
        log("TOOL-ERROR: %s" % e)
        sys.exit(2)
    except SystemExit:
        raise
    except BaseException as e:      # a defect of the runner itself is a tool error, never a verdict
        import traceback
        traceback.print_exc()
        log("TOOL-ERROR: runner failed: %r" % (e,))
        sys.exit(2)
