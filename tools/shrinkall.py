#!/usr/bin/env python3
"""Shrink every replay of a property and print the minimised cases, de-duplicated."""
import json, os, sys
sys.path.insert(0, os.path.dirname(os.path.abspath(__file__)))
import shrink, vcheck
prop = sys.argv[1]
limit = int(sys.argv[2]) if len(sys.argv) > 2 else 12
rule = sys.argv[3] if len(sys.argv) > 3 else None
d = os.path.join(vcheck.REPLAYS, prop)
seen = set()
tvh, _ = vcheck.build_harness()
n = 0
for fn in sorted(os.listdir(d)):
    if fn.endswith(".min.json"):
        continue
    rec = json.load(open(os.path.join(d, fn)))
    rules = {j["rule"] for j in rec["judged"]}
    if rule and rule not in rules:
        continue
    if rule:
        rules = {rule}
    case, last = shrink.shrink(prop, rec["case"], rules, verbose=False)
    key = json.dumps(case.get("src"), sort_keys=True)
    if key in seen:
        continue
    seen.add(key)
    tmp = os.path.join(vcheck.WORK, "shrink", "min.json")
    json.dump(case, open(tmp, "w"))
    p, _ = vcheck.run([tvh, "one", tmp], timeout=60)
    txt = p.stdout.decode(errors="replace")
    txt = txt[txt.find("--- rule text"):].replace("true_positives: []\ntrue_negatives: []\n", "")
    print("=" * 80)
    print(fn, sorted(rules))
    print(txt.rstrip())
    for j in last[:3]:
        print("JUDGED", json.dumps({k: v for k, v in j.items() if k not in ("case", "devs", "l", "cl")}))
    print("plan:", json.dumps(case.get("plan")), "tps:", case.get("tps"), "tns:", case.get("tns"))
    sys.stdout.flush()
    n += 1
    if n >= limit:
        break
